import Mimic.Framing
/-! Helper lemmas for the framing model (C04). -/
namespace Mimic.Framing

theorem M_eq : M = 16777215 := by decide
theorem M_pos : 0 < M := by decide
theorem M_lt : M < 2 ^ 24 := by decide
/-- every `0xFFFFFF` literal of `stream.py` (split size, slice bounds, continuation tests) is the same value -/
theorem literals_agree : ∀ x ∈ Mimic.Extracted.Stream.maxPacketLiterals, x = M := by decide
/-- the packet header is read with `readexactly` (a short read cannot split a header) -/
theorem header_read_exact : Mimic.Extracted.Stream.headerRead = "readexactly" := by decide
theorem seq_modulus : Mimic.Extracted.Stream.seqModulus = 256 := by decide

theorem app_app (st : St) (a b : Bytes) : (st.app a).app b = st.app (a ++ b) := by
  simp [St.app, List.append_assoc]

theorem app_nil (st : St) : st.app [] = st := by simp [St.app]

theorem step1_append {m : Nat} {st st' : St} {e} (h : step1 m st = some (st', e)) (y : Bytes) :
    step1 m (st.app y) = some (st'.app y, e) := by
  unfold step1 at h
  split at h
  · simp at h
  · rename_i hd
    split at h
    · rename_i hh
      split at h
      · rename_i b0 b1 b2 s rest hb
        unfold step1 St.app
        simp only [hd, hh, hb, List.cons_append]
        split at h
        · rename_i hs
          simp at h; obtain ⟨rfl, rfl⟩ := h
          simp [hs, hh]
        · rename_i hs
          simp at h; obtain ⟨rfl, rfl⟩ := h
          simp at hd
          simp [hs, hd]
      · simp at h
    · rename_i len hh
      split at h
      · rename_i hle
        unfold step1 St.app
        have hle' : len ≤ (st.buf ++ y).length := by simp; omega
        simp only [hd, hh, hle', if_true]
        split at h
        · rename_i hm
          subst hm
          simp at h; obtain ⟨rfl, rfl⟩ := h
          simp at hd
          simp [hd, List.take_append_of_le_length hle, List.drop_append_of_le_length hle]
        · rename_i hm
          simp at h; obtain ⟨rfl, rfl⟩ := h
          simp at hd
          simp [hm, hd, List.take_append_of_le_length hle, List.drop_append_of_le_length hle]
      · simp at h

theorem drain_none {m : Nat} {st : St} (h : step1 m st = none) : drain m st = (st, []) := by
  rw [drain]; split <;> simp_all

theorem drain_some {m : Nat} {st st' : St} {e} (h : step1 m st = some (st', e)) :
    drain m st = ((drain m st').1, e ++ (drain m st').2) := by
  rw [drain]; split
  · simp_all
  · rename_i st'' e' h'
    rw [h] at h'; simp at h'; obtain ⟨rfl, rfl⟩ := h'; rfl

theorem app_meas_of_step {m : Nat} {st st' : St} {e} (h : step1 m st = some (st', e)) : st'.meas < st.meas :=
  step1_lt h

theorem drain_append (m : Nat) (n : Nat) : ∀ (st : St) (y : Bytes), st.meas = n →
    drain m (st.app y) =
      (((drain m ((drain m st).1.app y)).1), (drain m st).2 ++ (drain m ((drain m st).1.app y)).2) := by
  induction n using Nat.strongRecOn with
  | _ n ih =>
    intro st y hn
    cases hs : step1 m st with
    | none => simp [drain_none hs]
    | some t =>
      obtain ⟨st', e⟩ := t
      have hlt := step1_lt hs
      rw [drain_some (step1_append hs y), drain_some hs]
      have := ih st'.meas (by omega) st' y rfl
      rw [this]; simp

/-- a drained state has nothing more to give -/
theorem step1_drain (m : Nat) (n : Nat) : ∀ st : St, st.meas = n → step1 m (drain m st).1 = none := by
  induction n using Nat.strongRecOn with
  | _ n ih =>
    intro st hn
    cases hs : step1 m st with
    | none => simp [drain_none hs, hs]
    | some t =>
      obtain ⟨st', e⟩ := t
      rw [drain_some hs]
      exact ih _ (by have := step1_lt hs; omega) st' rfl

/-- **segmentation independence**: for a drained start state, feeding chunk by chunk equals feeding the
    concatenation in one go (same events in the same order, same final reader state) -/
theorem feedAll_eq_feed_flatten (m : Nat) (st : St) (hst : step1 m st = none) (chunks : List Bytes) :
    feedAll m st chunks = feed m st chunks.flatten := by
  induction chunks generalizing st with
  | nil => simp [feedAll, feed, app_nil, drain_none hst]
  | cons c cs ih =>
    have hd : step1 m (feed m st c).1 = none := step1_drain _ _ _ rfl
    have e := ih _ hd
    simp only [feed] at e hd
    simp only [feedAll, List.flatten_cons, feed, e]
    have := drain_append m (st.app c).meas (st.app c) cs.flatten rfl
    rw [app_app] at this
    rw [this]

/-! ### write side -/

theorem le3_enc3 (n : Nat) (h : n < 2 ^ 24) :
    le3 (UInt8.ofNat (n % 256)) (UInt8.ofNat (n / 256 % 256)) (UInt8.ofNat (n / 65536 % 256)) = n := by
  simp only [le3, UInt8.toNat_ofNat']
  omega

theorem split_lt {m s : Nat} {p : Bytes} (h : ¬ (0 < m ∧ m ≤ p.length)) : split m s p = [(s % 256, p)] := by
  rw [split]; simp [h]

theorem split_ge {m s : Nat} {p : Bytes} (h : 0 < m ∧ m ≤ p.length) :
    split m s p = (s % 256, p.take m) :: split m (s + 1) (p.drop m) := by
  rw [split]; simp [h]

/-- number of packets: `len / m + 1` (a multiple of `m` ends in an empty packet) -/
theorem split_length (m : Nat) (hm : 0 < m) (n : Nat) : ∀ (s : Nat) (p : Bytes), p.length = n →
    (split m s p).length = p.length / m + 1 := by
  induction n using Nat.strongRecOn with
  | _ n ih =>
    intro s p hn
    by_cases h : m ≤ p.length
    · rw [split_ge ⟨hm, h⟩]
      simp only [List.length_cons]
      rw [ih (p.drop m).length (by simp; omega) (s + 1) (p.drop m) rfl]
      simp only [List.length_drop]
      have : p.length / m = (p.length - m) / m + 1 := Nat.div_eq_sub_div hm h
      omega
    · rw [split_lt (by omega)]
      simp only [List.length_singleton]
      rw [Nat.div_eq_of_lt (by omega)]

theorem split_lens (m : Nat) (n : Nat) : ∀ (s : Nat) (p : Bytes), p.length = n →
    (split m s p).map (fun qc => (qc.1, qc.2.length)) = splitLens m s p.length := by
  induction n using Nat.strongRecOn with
  | _ n ih =>
    intro s p hn
    by_cases h : 0 < m ∧ m ≤ p.length
    · rw [split_ge h, splitLens]
      simp only [h, and_self, dite_true, List.map_cons, List.length_take]
      rw [ih (p.drop m).length (by simp; omega) (s + 1) (p.drop m) rfl]
      simp only [List.length_drop]
      congr 2; omega
    · rw [split_lt h, splitLens]
      simp [h]

/-- everything written so far, in order: what the transport got plus what is still buffered -/
def WSt.bytes (st : WSt) : Bytes := st.sent.flatten ++ st.pending

theorem flush_bytes (st : WSt) : (flush st).bytes = st.bytes := by
  unfold flush WSt.bytes; split <;> simp_all

theorem putPkt_bytes (B : Nat) (d : Bool) (st : WSt) (qc : Nat × Bytes) :
    (putPkt B d st qc).bytes = st.bytes ++ encPkt qc.1 qc.2 := by
  unfold putPkt
  split
  · rw [flush_bytes]; simp [WSt.bytes]
  · simp [WSt.bytes]

theorem foldl_putPkt_bytes (B : Nat) (d : Bool) (pk : List (Nat × Bytes)) : ∀ st : WSt,
    (pk.foldl (putPkt B d) st).bytes = st.bytes ++ pk.flatMap (fun qc => encPkt qc.1 qc.2) := by
  induction pk with
  | nil => intro st; simp
  | cons a as ih => intro st; simp [ih, putPkt_bytes]

theorem flush_pending (st : WSt) : (flush st).pending = [] := by
  unfold flush; split <;> simp_all

/-- the reader consumes one wire packet (header step + payload step) -/
theorem drain_pkt (m : Nat) (st : St) (q : Nat) (c rest : Bytes)
    (hd : st.dead = false) (hh : st.hdr = none) (hq : q % 256 = st.expect) (hc : c.length < 2 ^ 24)
    (hb : st.buf = encPkt q c ++ rest) :
    drain m st =
      if c.length = m then
        ((drain m { st with buf := rest, acc := st.acc ++ c, expect := (st.expect + 1) % 256 }).1,
         (drain m { st with buf := rest, acc := st.acc ++ c, expect := (st.expect + 1) % 256 }).2)
      else
        ((drain m { st with buf := rest, acc := [], expect := (st.expect + 1) % 256 }).1,
         Ev.msg (st.acc ++ c) :: (drain m { st with buf := rest, acc := [], expect := (st.expect + 1) % 256 }).2) := by
  have h1 : step1 m st = some ({ st with buf := c ++ rest, hdr := some c.length, expect := (st.expect + 1) % 256 }, []) := by
    unfold step1
    simp only [hd, hh, hb, encPkt, enc3, List.cons_append, List.nil_append]
    have : (UInt8.ofNat (q % 256)).toNat = st.expect := by
      rw [UInt8.toNat_ofNat']; omega
    simp [this, le3_enc3 _ hc]
  rw [drain_some h1]
  simp only [List.nil_append]
  by_cases hm : c.length = m
  · have h2 : step1 m { st with buf := c ++ rest, hdr := some c.length, expect := (st.expect + 1) % 256 } = some ({ st with buf := rest, acc := st.acc ++ c, hdr := none, expect := (st.expect + 1) % 256 }, []) := by
      unfold step1
      subst hm
      simp [hd]
    rw [drain_some h2]
    simp only [hm, if_true, List.nil_append, ← hh]
  · have h2 : step1 m { st with buf := c ++ rest, hdr := some c.length, expect := (st.expect + 1) % 256 } = some ({ st with buf := rest, acc := [], hdr := none, expect := (st.expect + 1) % 256 }, [Ev.msg (st.acc ++ c)]) := by
      unfold step1
      simp [hd, hm]
    rw [drain_some h2]
    simp only [hm, if_false, List.singleton_append, ← hh]

end Mimic.Framing
