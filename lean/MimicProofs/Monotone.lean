import MimicProofs.CommandLoop
/-!
**Nothing once written is ever retracted.**  Every translated handler, the dispatch, one iteration of the command loop and the
whole loop only *extend* the list of effects (`out`: packets written, drains, resets, `use` calls) of the connection they
start from — whatever the packet, the state, the parser, the application and the row source do, and whether the handler returns
or raises.  With `CommandLoop.loop_append`: the wire after serving `ps ++ qs` begins with the wire after serving `ps`.
-/
namespace MimicProofs.Monotone
open Mimic.Py Mimic.Extracted.HandlersCode MimicProofs.HandlersCode MimicProofs.CommandLoop
open Mimic.Extracted.ParsersCode (ComQuery ComFieldList ComStmtFetch ComStmtReset ComStmtClose ComStmtSendLongData parse_handle_stmt_fetch parse_com_stmt_reset parse_com_stmt_close parse_com_stmt_send_long_data)

variable {S : Type} [DecidableEq S]

/-- the result of a handler started from `c` (returned or raised) has `c`'s effects as a prefix of its own -/
def Ext (c : Connection S) : Except (Connection S) (Connection S) → Prop
  | .ok s => c.out <+: s.out
  | .error s => c.out <+: s.out

omit [DecidableEq S] in
theorem ext_error_self (c : Connection S) : Ext c (.error c) := List.prefix_refl _
omit [DecidableEq S] in
theorem ext_ok_self (c : Connection S) : Ext c (.ok c) := List.prefix_refl _

omit [DecidableEq S] in
/-- every outcome the cursor specification allows extends the effects -/
theorem ext_of_spec (row : Bytes → Nat) (c : Connection S) (res : Except (Connection S) (Connection S)) (m : Mimic.Cursor.Reg × Mimic.Cursor.Out)
    (h : Spec row c res m) : Ext c res := by
  unfold Spec at h
  cases res with
  | ok c' =>
    cases hm : m.2 with
    | rows rs fl =>
      rw [hm] at h; obtain ⟨_, _, _, ps, _, a, l, w, ho⟩ := h
      show c.out <+: c'.out
      rw [ho, List.append_assoc]; exact List.prefix_append _ _
    | rowsErr rs => rw [hm] at h; exact h.elim
    | err => rw [hm] at h; exact h.elim
    | ok =>
      rw [hm] at h; obtain ⟨_, _, _, e, a, l, w, f, ho⟩ := h
      show c.out <+: c'.out
      rw [ho]; exact List.prefix_append _ _
    | none =>
      rw [hm] at h; obtain ⟨_, _, _, ho⟩ := h
      show c.out <+: c'.out
      rw [ho]; exact List.prefix_refl _
    | _ => rw [hm] at h; exact h.elim
  | error c' =>
    cases hm : m.2 with
    | rows rs fl => rw [hm] at h; exact h.elim
    | rowsErr rs =>
      rw [hm] at h; obtain ⟨_, _, _, ps, _, ho⟩ := h
      show c.out <+: c'.out
      rw [ho]; exact List.prefix_append _ _
    | err => rw [hm] at h; obtain ⟨he, _⟩ := h; subst he; exact List.prefix_refl _
    | ok => rw [hm] at h; exact h.elim
    | none => rw [hm] at h; exact h.elim
    | _ => rw [hm] at h; exact h.elim

theorem fetch_ext (c : Connection S) (data : Bytes) : Ext c (handle_stmt_fetch c data) := by
  cases hp : parse_handle_stmt_fetch (S := S) data with
  | none => rw [(malformed_changes_nothing c data).1 hp]; exact ext_error_self c
  | some f => exact ext_of_spec (fun _ => 0) c _ _ (handle_stmt_fetch_refines (fun _ => 0) c data f 0 hp)

theorem reset_ext (c : Connection S) (data : Bytes) : Ext c (handle_stmt_reset c data) := by
  cases hp : parse_com_stmt_reset (S := S) data with
  | none => rw [(malformed_changes_nothing c data).2.1 hp]; exact ext_error_self c
  | some f => exact ext_of_spec (fun _ => 0) c _ _ (handle_stmt_reset_refines (fun _ => 0) c data f 0 hp)

theorem close_ext (c : Connection S) (data : Bytes) : Ext c (handle_stmt_close c data) := by
  cases hp : parse_com_stmt_close (S := S) data with
  | none => rw [(malformed_changes_nothing c data).2.2.1 hp]; exact ext_error_self c
  | some f => exact ext_of_spec (fun _ => 0) c _ _ (handle_stmt_close_refines (fun _ => 0) c data f 0 hp)

theorem send_long_data_ext (c : Connection S) (data : Bytes) : Ext c (handle_stmt_send_long_data c data) := by
  cases hp : parse_com_stmt_send_long_data (S := S) data with
  | none => rw [(malformed_changes_nothing c data).2.2.2 hp]; exact ext_error_self c
  | some f =>
    have h := handle_stmt_send_long_data_spec c data f hp
    cases hg : dictGet c.prepared_stmts f.stmt_id with
    | none => rw [hg] at h; dsimp only at h; rw [h]; exact ext_ok_self c
    | some stmt =>
      rw [hg] at h; dsimp only at h
      obtain ⟨c', _, hr, ho, _⟩ := h
      rw [hr]; show c.out <+: c'.out; rw [ho]; exact List.prefix_refl _

theorem simple_ext (c : Connection S) (data : Bytes) :
    Ext c (handle_ping c data) ∧ Ext c (handle_reset_connection c data) ∧ Ext c (handle_debug c data) := by
  obtain ⟨⟨_, _, _, _, _, h1⟩, ⟨_, _, _, _, _, h2⟩, ⟨_, _, _, _, _, h3⟩⟩ := simple_handlers_spec c data
  refine ⟨?_, ?_, ?_⟩
  · rw [h1]; exact List.prefix_append _ _
  · rw [h2]; exact List.prefix_append _ _
  · rw [h3]; exact List.prefix_append _ _

theorem prepare_ext (E : Env S) (cp : S → Nat) (pc : Nat → Bytes) (c : Connection S) (data : Bytes) :
    Ext c (handle_stmt_prepare E cp pc c data) := by
  have h := handle_stmt_prepare_spec E cp pc c data
  cases hd : E.decode c.client_charset data with
  | none => rw [hd] at h; dsimp only at h; rw [h]; exact ext_error_self c
  | some sql =>
    rw [hd] at h; dsimp only at h
    obtain ⟨c', w, f, hr, _, _, _, _, ho⟩ := h
    rw [hr]; show c.out <+: c'.out; rw [ho, List.append_assoc]; exact List.prefix_append _ _

theorem init_db_ext (E : Env S) (ur : S → Bool) (c : Connection S) (data : Bytes) : Ext c (handle_init_db E ur c data) := by
  have h := handle_init_db_spec E ur c data
  cases hp : Mimic.Extracted.ParsersCode.parse_com_init_db E c.client_charset data with
  | none => rw [hp] at h; dsimp only at h; rw [h]; exact ext_error_self c
  | some db =>
    rw [hp] at h; dsimp only at h
    by_cases hu : ur db = true
    · rw [if_pos hu] at h; rw [h]; exact List.prefix_append _ _
    · rw [if_neg hu] at h; obtain ⟨_, _, _, _, _, h⟩ := h; rw [h]; exact List.prefix_append _ _

theorem field_list_ext (E : Env S) (app : S → Option (ResultSet S)) (fls : ComFieldList S → S) (fcd : Nat → S → Bytes → Bytes)
    (c : Connection S) (data : Bytes) : Ext c (handle_field_list E app fls fcd c data) := by
  have h := handle_field_list_spec E app fls fcd c data
  cases hp : Mimic.Extracted.ParsersCode.parse_com_field_list E c.client_charset data with
  | none => rw [hp] at h; dsimp only at h; rw [h]; exact ext_error_self c
  | some f =>
    rw [hp] at h; dsimp only at h
    cases ha : app (fls f) with
    | none => rw [ha] at h; dsimp only at h; rw [h]; exact ext_error_self c
    | some rs =>
      rw [ha] at h; dsimp only at h
      obtain ⟨_, _, _, _, h⟩ := h
      rw [h]
      by_cases hb : rs.rows.boom = true
      · rw [if_pos hb]; exact List.prefix_append _ _
      · rw [if_neg hb]; show c.out <+: _; rw [List.append_assoc]; exact List.prefix_append _ _

theorem query_ext (E : Env S) (coldef : Nat → Nat → Bytes) (app : S → Option (ResultSet S)) (c : Connection S) (data : Bytes) :
    Ext c (handle_query E coldef app c data) := by
  have h := handle_query_spec E coldef app c data
  cases hp : Mimic.Extracted.ParsersCode.parse_com_query E c.capabilities c.client_charset data with
  | none => rw [hp] at h; dsimp only at h; rw [h]; exact ext_error_self c
  | some q =>
    rw [hp] at h; dsimp only at h
    cases ha : app q.sql with
    | none => rw [ha] at h; dsimp only at h; rw [h]; exact ext_error_self c
    | some rs =>
      rw [ha] at h; dsimp only at h
      by_cases he : rs.columns.isEmpty = true
      · rw [if_pos he] at h; obtain ⟨_, _, _, _, _, h⟩ := h; rw [h]; exact List.prefix_append _ _
      · rw [if_neg he] at h; obtain ⟨_, _, _, _, _, h⟩ := h
        rw [h]
        by_cases hb : rs.rows.boom = true
        · rw [if_pos hb]; show c.out <+: _; simp only [List.append_assoc]; exact List.prefix_append _ _
        · rw [if_neg hb]; show c.out <+: _; simp only [List.append_assoc]; exact List.prefix_append _ _

theorem execute_ext (coldef : Nat → Nat → Bytes) (parse : Connection S → Bytes → Option (ComStmtExecute S))
    (app : S → Option (ResultSet S)) (c : Connection S) (data : Bytes) : Ext c (handle_stmt_execute coldef parse app c data) := by
  have h := handle_stmt_execute_spec coldef parse app c data
  cases hp : parse c data with
  | none => rw [hp] at h; dsimp only at h; rw [h]; exact ext_error_self c
  | some x =>
    rw [hp] at h; dsimp only at h
    cases ha : app x.sql with
    | none => rw [ha] at h; dsimp only at h; rw [h]; exact List.prefix_refl _
    | some rs =>
      rw [ha] at h; dsimp only at h
      by_cases he : rs.columns.isEmpty = true
      · rw [if_pos he] at h; obtain ⟨_, _, _, _, _, h⟩ := h; rw [h]; exact List.prefix_append _ _
      · rw [if_neg he] at h
        by_cases hc : x.use_cursor = true
        · rw [if_pos hc] at h; obtain ⟨_, _, _, h⟩ := h; rw [h]
          show c.out <+: _; simp only [List.append_assoc]; exact List.prefix_append _ _
        · rw [if_neg hc] at h; obtain ⟨_, _, _, _, _, _, h⟩ := h
          rw [h]
          by_cases hb : rs.rows.boom = true
          · rw [if_pos hb]; show c.out <+: _; simp only [List.append_assoc]; exact List.prefix_append _ _
          · rw [if_neg hb]; show c.out <+: _; simp only [List.append_assoc]; exact List.prefix_append _ _

section loop
variable (E : Env S) (cp : S → Nat) (pc : Nat → Bytes) (coldef : Nat → Nat → Bytes)
  (parse : Connection S → Bytes → Option (ComStmtExecute S)) (app : S → Option (ResultSet S))
  (ur : S → Bool) (fls : ComFieldList S → S) (fcd : Nat → S → Bytes → Bytes)
  (other : Nat → Connection S → Bytes → Except (Connection S) (Connection S)) (err : Connection S → Bytes)
  (af : Nat → Connection S → Bytes → Option (Connection S))

/-- the dispatch extends the effects (COM_QUIT writes nothing) -/
def DExt (c : Connection S) : Except (Connection S) (Option (Connection S)) → Prop
  | .ok (some s) => c.out <+: s.out
  | .ok none => True
  | .error s => c.out <+: s.out

omit [DecidableEq S] in
theorem dext_map (c : Connection S) (r : Except (Connection S) (Connection S)) (h : Ext c r) : DExt c (r.map some) := by
  cases r <;> exact h

theorem dispatch_ext (hother : ∀ k c d, Ext c (other k c d)) (c : Connection S) (command : Nat) (rest : Bytes) :
    DExt c (dispatch E cp pc coldef parse app ur fls fcd other c command rest) := by
  unfold dispatch
  by_cases c3 : (command == 3) = true
  · simp only [c3, if_true]; exact dext_map c _ (query_ext E coldef app c rest)
  simp only [c3, Bool.false_eq_true, if_false]
  by_cases c22 : (command == 22) = true
  · simp only [c22, if_true]; exact dext_map c _ (prepare_ext E cp pc c rest)
  simp only [c22, Bool.false_eq_true, if_false]
  by_cases c24 : (command == 24) = true
  · simp only [c24, if_true]; exact dext_map c _ (send_long_data_ext c rest)
  simp only [c24, Bool.false_eq_true, if_false]
  by_cases c23 : (command == 23) = true
  · simp only [c23, if_true]; exact dext_map c _ (execute_ext coldef parse app c rest)
  simp only [c23, Bool.false_eq_true, if_false]
  by_cases c28 : (command == 28) = true
  · simp only [c28, if_true]; exact dext_map c _ (fetch_ext c rest)
  simp only [c28, Bool.false_eq_true, if_false]
  by_cases c26 : (command == 26) = true
  · simp only [c26, if_true]; exact dext_map c _ (reset_ext c rest)
  simp only [c26, Bool.false_eq_true, if_false]
  by_cases c25 : (command == 25) = true
  · simp only [c25, if_true]; exact dext_map c _ (close_ext c rest)
  simp only [c25, Bool.false_eq_true, if_false]
  by_cases c14 : (command == 14) = true
  · simp only [c14, if_true]; exact dext_map c _ (simple_ext c rest).1
  simp only [c14, Bool.false_eq_true, if_false]
  by_cases c17 : (command == 17) = true
  · simp only [c17, if_true]; exact dext_map c _ (hother 17 c rest)
  simp only [c17, Bool.false_eq_true, if_false]
  by_cases c31 : (command == 31) = true
  · simp only [c31, if_true]; exact dext_map c _ (simple_ext c rest).2.1
  simp only [c31, Bool.false_eq_true, if_false]
  by_cases c13 : (command == 13) = true
  · simp only [c13, if_true]; exact dext_map c _ (simple_ext c rest).2.2
  simp only [c13, Bool.false_eq_true, if_false]
  by_cases c1 : (command == 1) = true
  · simp only [c1, if_true]; exact True.intro
  simp only [c1, Bool.false_eq_true, if_false]
  by_cases c2 : (command == 2) = true
  · simp only [c2, if_true]; exact dext_map c _ (init_db_ext E ur c rest)
  simp only [c2, Bool.false_eq_true, if_false]
  by_cases c4 : (command == 4) = true
  · simp only [c4, if_true]; exact dext_map c _ (field_list_ext E app fls fcd c rest)
  simp only [c4, Bool.false_eq_true, if_false]
  exact List.prefix_refl _

/-- one iteration only extends the effects -/
theorem step_ext (hother : ∀ k c d, Ext c (other k c d)) (haf : ∀ k c d s, af k c d = some s → c.out <+: s.out) (c : Connection S) (data : Bytes) :
    c.out <+: (command_step E cp pc coldef parse app ur fls fcd other err af c data).1.out := by
  have h := command_step_spec E cp pc coldef parse app ur fls fcd other err af c data
  dsimp only at h
  cases ha : authEnded af c data with
  | some s =>
    rw [ha] at h; dsimp only at h; rw [h]
    have hs : c.out <+: s.out := by
      cases data with
      | nil => simp [authEnded] at ha
      | cons command rest =>
        simp only [authEnded] at ha
        by_cases hu : untranslated.contains command.toNat = true
        · rw [if_pos hu] at ha; exact haf _ ({ c with _executing := true } : Connection S) _ _ ha
        · rw [if_neg hu] at ha; cases ha
    exact List.IsPrefix.trans hs (List.prefix_append _ _)
  | none =>
    rw [ha] at h; dsimp only at h
    cases data with
    | nil => dsimp only at h; rw [h]; exact List.prefix_append _ _
    | cons command rest =>
      dsimp only at h
      have hd := dispatch_ext E cp pc coldef parse app ur fls fcd other hother ({ c with _executing := true } : Connection S) command.toNat rest
      cases hx : dispatch E cp pc coldef parse app ur fls fcd other ({ c with _executing := true } : Connection S) command.toNat rest with
      | error s =>
        rw [hx] at h hd; dsimp only at h; rw [h]
        exact List.IsPrefix.trans hd (List.prefix_append _ _)
      | ok o =>
        cases o with
        | none => rw [hx] at h; dsimp only at h; rw [h]; exact List.prefix_append _ _
        | some s =>
          rw [hx] at h hd; dsimp only at h; rw [h]
          exact List.IsPrefix.trans hd (List.prefix_append _ _)

/-- **the loop only extends the effects**: whatever the conversation, everything that had been written stays written, in order -/
theorem loop_ext (hother : ∀ k c d, Ext c (other k c d)) (haf : ∀ k c d s, af k c d = some s → c.out <+: s.out) (c : Connection S) (ps : List Bytes) :
    c.out <+: (command_loop E cp pc coldef parse app ur fls fcd other err af c ps).1.out := by
  induction ps generalizing c with
  | nil => exact List.prefix_refl _
  | cons p ps ih =>
    rw [loop_cons]
    have hs := step_ext E cp pc coldef parse app ur fls fcd other err af hother haf c p
    by_cases hg : (command_step E cp pc coldef parse app ur fls fcd other err af c p).2 = true
    · simp only [hg, if_true]; exact List.IsPrefix.trans hs (ih _)
    · simp only [hg]; exact hs

/-- **what the client has been sent after `ps` is the beginning of what it has been sent after `ps ++ qs`** -/
theorem loop_prefix (hother : ∀ k c d, Ext c (other k c d)) (haf : ∀ k c d s, af k c d = some s → c.out <+: s.out) (c : Connection S) (ps qs : List Bytes) :
    (command_loop E cp pc coldef parse app ur fls fcd other err af c ps).1.out
      <+: (command_loop E cp pc coldef parse app ur fls fcd other err af c (ps ++ qs)).1.out := by
  rw [loop_append]
  by_cases hq : (command_loop E cp pc coldef parse app ur fls fcd other err af c ps).2 = true
  · simp only [hq, if_true]; exact List.prefix_refl _
  · simp only [hq]; exact loop_ext E cp pc coldef parse app ur fls fcd other err af hother haf _ qs

end loop
end MimicProofs.Monotone
