import Mimic.Variables
/-! Helper lemmas for C14: the store as a finite map, coercion is idempotent, well-typed stores. -/
namespace MimicProofs.Variables
open Mimic.Variables

theorem lookup_filter_ne (st : Store) (k k' : String) (h : k' ≠ k) :
    (st.filter (fun p => p.1 != k)).lookup k' = st.lookup k' := by
  induction st with
  | nil => rfl
  | cons p rest ih =>
    obtain ⟨a, b⟩ := p
    by_cases ha : a = k
    · subst ha
      have : (k' == a) = false := by simpa using h
      simp [List.filter, List.lookup, this, ih]
    · have hne : (a != k) = true := by simpa using ha
      simp only [List.filter, hne, List.lookup]
      split <;> simp_all

theorem lookup_put (st : Store) (k k' : String) (v : V) :
    (put st k v).lookup k' = if k' = k then some v else st.lookup k' := by
  unfold put
  by_cases h : k' = k
  · subst h; simp [List.lookup]
  · have : (k' == k) = false := by simpa using h
    simp [List.lookup, this, h, lookup_filter_ne st k k' h]

theorem get_put (sch : List Schema) (st : Store) (a n : String) (v : V) :
    get sch (put st (lower a) v) n = if lower n = lower a then .ok v else get sch st n := by
  unfold Mimic.Variables.get
  rw [lookup_put]
  by_cases h : lower n = lower a <;> simp [h]

theorem findSchema_mem {sch : List Schema} {k : String} {s : Schema} (h : findSchema sch k = some s) : s ∈ sch :=
  List.mem_of_find?_eq_some h

/-- a value the variable's type maps to itself (or the `None` default) -/
def Good (cs : List String) (s : Schema) (w : V) : Prop :=
  (w = .none ∧ s.dflt = .none) ∨ (w ≠ .none ∧ coerce cs s.ty w = .ok w)

/-- every default of the schema is a fixed point of its own type -/
def DefaultsOk (sch : List Schema) (cs : List String) : Prop := ∀ s ∈ sch, Good cs s s.dflt

/-- executable form of `DefaultsOk`, evaluated on the extracted schema -/
def defaultsOkB (sch : List Schema) (cs : List String) : Bool :=
  sch.all (fun s => match s.dflt with
    | .none => true
    | d => match coerce cs s.ty d with
      | .ok w => w == d
      | .error _ => false)

theorem defaultsOk_of_B {sch : List Schema} {cs : List String} (h : defaultsOkB sch cs = true) : DefaultsOk sch cs := by
  intro s hs
  unfold defaultsOkB at h
  rw [List.all_eq_true] at h
  have := h s hs
  unfold Good
  cases hd : s.dflt with
  | none => left; exact ⟨rfl, rfl⟩
  | int i =>
    right; rw [hd] at this; simp only at this
    split at this
    · rename_i w hw; have : w = .int i := by simpa using this
      subst this; exact ⟨by simp, hw⟩
    · cases this
  | bool b =>
    right; rw [hd] at this; simp only at this
    split at this
    · rename_i w hw; have : w = .bool b := by simpa using this
      subst this; exact ⟨by simp, hw⟩
    · cases this
  | str x =>
    right; rw [hd] at this; simp only at this
    split at this
    · rename_i w hw; have : w = .str x := by simpa using this
      subst this; exact ⟨by simp, hw⟩
    · cases this
  | flt t z r =>
    right; rw [hd] at this; simp only at this
    split at this
    · rename_i w hw; have : w = .flt t z r := by simpa using this
      subst this; exact ⟨by simp, hw⟩
    · cases this

/-- coercion never yields `None` and is idempotent -/
theorem coerce_idem (cs : List String) (ty : Ty) (v w : V) (h : coerce cs ty v = .ok w) : w ≠ .none ∧ coerce cs ty w = .ok w := by
  cases ty with
  | int =>
    cases v with
    | int i => simp only [coerce] at h; cases h; exact ⟨by simp, rfl⟩
    | bool b => simp only [coerce] at h; cases h; exact ⟨by simp, rfl⟩
    | flt t z r => simp only [coerce] at h; cases h; exact ⟨by simp, rfl⟩
    | none => simp only [coerce] at h; cases h
    | str x =>
      simp only [coerce] at h
      split at h
      · cases h; exact ⟨by simp, rfl⟩
      · cases h
  | bool =>
    cases v <;> simp only [coerce] at h <;> cases h <;> exact ⟨by simp, rfl⟩
  | str =>
    simp only [coerce] at h; cases h; exact ⟨by simp, by simp [coerce, pyStr]⟩
  | charset =>
    simp only [coerce] at h
    split at h
    · rename_i hc; cases h
      refine ⟨by simp, ?_⟩
      show (if cs.contains (pyStr (V.str (pyStr v))) then _ else _) = _
      rw [show pyStr (V.str (pyStr v)) = pyStr v from rfl, if_pos hc]
    · cases h
  | timezone =>
    simp only [coerce] at h
    split at h
    · rename_i hc; cases h
      refine ⟨by simp, ?_⟩
      show (if (tzOffset (pyStr (V.str (pyStr v)))).isSome then _ else _) = _
      rw [show pyStr (V.str (pyStr v)) = pyStr v from rfl, if_pos hc]
    · cases h

/-- well-typed store: every override belongs to a known variable and is a fixed point of its type -/
def WT (sch : List Schema) (cs : List String) (st : Store) : Prop :=
  ∀ k v, st.lookup k = some v → ∃ s, findSchema sch k = some s ∧ Good cs s v

theorem WT_nil (sch : List Schema) (cs : List String) : WT sch cs [] := by
  intro k v h; simp [List.lookup] at h

theorem WT_put {sch : List Schema} {cs : List String} {st : Store} (h : WT sch cs st) (k : String) (s : Schema) (w : V)
    (hs : findSchema sch k = some s) (hg : Good cs s w) : WT sch cs (put st k w) := by
  intro k' v hl
  rw [lookup_put] at hl
  by_cases hk : k' = k
  · subst hk; simp at hl; subst hl; exact ⟨s, hs, hg⟩
  · simp [hk] at hl; exact h k' v hl

/-- shape of a successful `set` -/
theorem set_ok {sch : List Schema} {cs : List String} {force : Bool} {st st' : Store} {name : String} {a : Arg}
    (hd : DefaultsOk sch cs) (h : set sch cs force st name a = .ok st') :
    ∃ s w, findSchema sch (lower name) = some s ∧ (s.dynamic = true ∨ force = true) ∧ st' = put st (lower name) w ∧ Good cs s w := by
  unfold Mimic.Variables.set at h
  split at h
  · cases h
  · rename_i s hs
    split at h
    · cases h
    · rename_i hdyn
      have hdf : s.dynamic = true ∨ force = true := by
        cases hd' : s.dynamic <;> cases hf : force <;> simp_all
      have hgd := hd s (findSchema_mem hs)
      split at h
      · cases h
      · cases h; exact ⟨s, s.dflt, hs, hdf, rfl, hgd⟩
      · cases h; exact ⟨s, s.dflt, hs, hdf, rfl, hgd⟩
      · rename_i v hv
        split at h
        · rename_i w hw
          cases h
          obtain ⟨h1, h2⟩ := coerce_idem cs s.ty v w hw
          exact ⟨s, w, hs, hdf, rfl, Or.inr ⟨h1, h2⟩⟩
        · cases h

theorem set_WT {sch : List Schema} {cs : List String} {force : Bool} {st st' : Store} {name : String} {a : Arg}
    (hd : DefaultsOk sch cs) (hw : WT sch cs st) (h : set sch cs force st name a = .ok st') : WT sch cs st' := by
  obtain ⟨s, w, hs, _, rfl, hg⟩ := set_ok hd h
  exact WT_put hw _ s w hs hg

/-- the value read from a well-typed store is a fixed point of the variable's type -/
theorem get_good {sch : List Schema} {cs : List String} {st : Store} {n : String} {v : V} {s : Schema}
    (hd : DefaultsOk sch cs) (hw : WT sch cs st) (hs : findSchema sch (lower n) = some s) (hg : get sch st n = .ok v) : Good cs s v := by
  unfold Mimic.Variables.get at hg
  split at hg
  · rename_i x hx
    cases hg
    obtain ⟨s', hs', hg'⟩ := hw _ _ hx
    rw [hs] at hs'; cases hs'; exact hg'
  · rw [hs] at hg; simp at hg; subst hg; exact hd s (findSchema_mem hs)

/-- setting a variable to a fixed point of its type stores exactly that value -/
theorem set_val_good {sch : List Schema} {cs : List String} {st : Store} {n : String} {v : V} {s : Schema}
    (hs : findSchema sch (lower n) = some s) (hg : Good cs s v) (hdyn : s.dynamic = true) :
    set sch cs false st n (.val v) = .ok (put st (lower n) v) := by
  unfold Mimic.Variables.set
  rw [hs]
  simp only [hdyn, Bool.not_true, Bool.false_and, Bool.false_eq_true, if_false]
  rcases hg with ⟨h1, h2⟩ | ⟨h1, h2⟩
  · subst h1; simp [h2]
  · cases v <;> simp_all

theorem set_val_fail_or {sch : List Schema} {cs : List String} {st : Store} {n : String} {v : V} {s : Schema}
    (hs : findSchema sch (lower n) = some s) (hg : Good cs s v) :
    set sch cs false st n (.val v) = .ok (put st (lower n) v) ∨ ∃ e, set sch cs false st n (.val v) = .error e := by
  cases hdyn : s.dynamic
  · right; unfold Mimic.Variables.set; rw [hs]; simp [hdyn]
  · left; exact set_val_good hs hg hdyn

end MimicProofs.Variables
