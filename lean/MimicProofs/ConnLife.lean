import MimicProofs.Conn
/-! Life-cycle invariant of the connection machine (C10): `session.close` is called exactly once iff `session.init`
    completed; a closed connection is unregistered and its transport is closed — for ALL events (faults included). -/
namespace Mimic.Conn

/-- generic induction threading the life-cycle counters through `runOps` (ops without life-cycle calls) -/
theorem runOps_lc (P : S → Prop) (lvl : Lvl) (onEnd : S → Option Exc → S) (onThrow : S → Exc → S) (n : Nat) (b : Bool)
    (hEnd : ∀ s e, s.closeCalls = n → s.initDone = b → P (onEnd s e))
    (hThrow : ∀ s e, s.closeCalls = n → s.initDone = b → P (onThrow s e))
    (hPark : ∀ s w r e, s.closeCalls = n → s.initDone = b → s.phase = .parked lvl w r e →
      (∀ op ∈ r, op.lifecycle = false) → P s) :
    ∀ (ops : List Op) (s : S) (exc : Option Exc), s.closeCalls = n → s.initDone = b →
      (∀ op ∈ ops, op.lifecycle = false) → P (runOps lvl onEnd onThrow s ops exc) := by
  intro ops
  induction ops with
  | nil => intro s exc hn hb _; simp only [runOps]; exact hEnd _ _ hn hb
  | cons op rest ih =>
    intro s exc hn hb hlc
    have hrest : ∀ op ∈ rest, op.lifecycle = false := fun o ho => hlc o (by simp [ho])
    have hop := hlc op (by simp)
    have hfn : (flush s).closeCalls = n := by rw [(flush_frame s).closeCalls]; exact hn
    have hfb : (flush s).initDone = b := by rw [(flush_frame s).initDone]; exact hb
    cases op with
    | emit p => simp only [runOps]; exact ih _ _ hn hb hrest
    | drain =>
      simp only [runOps]
      split
      · exact hThrow _ _ hfn hfb
      · split
        · split
          · exact hThrow _ _ hfn hfb
          · exact hPark _ _ _ _ hfn hfb rfl hrest
        · exact ih _ _ hfn hfb hrest
    | call c susp raises =>
      have hcl : c ≠ .close := by intro h; subst h; simp [Op.lifecycle] at hop
      have hci : c ≠ .init := by intro h; subst h; simp [Op.lifecycle] at hop
      simp only [runOps, hcl, if_false]
      split
      · split
        · exact hThrow _ _ hn hb
        · refine hPark _ _ _ _ hn hb rfl ?_
          intro o ho
          rcases List.mem_cons.mp ho with rfl | ho
          · cases c <;> simp_all [Op.lifecycle]
          · exact hrest o ho
      · cases raises with
        | true => simp only [runOps, if_true]; exact hThrow _ _ hn hb
        | false => simp only [runOps, Bool.false_eq_true, if_false, hci]; exact ih _ _ hn hb hrest
    | callRet c raises =>
      have hci : c ≠ .init := by intro h; subst h; simp [Op.lifecycle] at hop
      cases raises with
      | true => simp only [runOps, if_true]; exact hThrow _ _ hn hb
      | false => simp only [runOps, Bool.false_eq_true, if_false, hci]; exact ih _ _ hn hb hrest
    | pull susp =>
      simp only [runOps]
      split
      · split
        · exact hThrow _ _ hn hb
        · exact hPark _ _ _ _ hn hb rfl hrest
      · exact ih _ _ hn hb hrest
    | yield_ =>
      simp only [runOps]
      split
      · exact hThrow _ _ hn hb
      · exact ih _ _ hn hb hrest
    | raise_ e => simp only [runOps]; exact hThrow _ _ hn hb
    | selfKill k => cases k <;> simp only [runOps] <;> exact ih _ _ hn hb hrest
    | quit => simp only [runOps]; exact hThrow _ _ hn hb

/-- **The life-cycle invariant.** -/
def LCInv (s : S) : Prop :=
  match s.phase with
  | .closed => s.closeCalls = (if s.initDone then 1 else 0) ∧ s.registered = false ∧ s.transportClosed = true
  | .greeting => s.closeCalls = 0 ∧ s.initDone = false
  | .idle => s.closeCalls = 0 ∧ s.initDone = true
  | .parked .connPhase _ rest _ => s.closeCalls = 0 ∧ s.initDone = false ∧ ∀ op ∈ rest, op.lifecycle = false
  | .parked .initing _ _ _ => s.closeCalls = 0 ∧ s.initDone = false
  | .parked .connArm _ rest _ => s.closeCalls = 0 ∧ s.initDone = false ∧ ∀ op ∈ rest, op.lifecycle = false
  | .parked .handler _ rest _ => s.closeCalls = 0 ∧ s.initDone = true ∧ ∀ op ∈ rest, op.lifecycle = false
  | .parked .cmdArm _ rest _ => s.closeCalls = 0 ∧ s.initDone = true ∧ ∀ op ∈ rest, op.lifecycle = false
  | .parked .startArm _ rest _ => s.closeCalls = 0 ∧ s.initDone = true ∧ ∀ op ∈ rest, op.lifecycle = false
  | .parked .closing _ _ _ => False        -- `session.close` is awaited without suspension in the model

theorem release_lc (s : S) (e : Option Exc) (h : s.closeCalls = if s.initDone then 1 else 0) : LCInv (release s e) :=
  ⟨h, rfl, rfl⟩

theorem closeSession_eq (s : S) (exc : Option Exc) :
    closeSession s exc = release { s with closeCalls := s.closeCalls + 1 } (if s.closeFails then some .generic else exc) := by
  cases h : s.closeFails <;> simp [closeSession, runClosing, runOps, h]

theorem closeSession_lc (s : S) (exc : Option Exc) (hn : s.closeCalls = 0) (hb : s.initDone = true) :
    LCInv (closeSession s exc) := by
  rw [closeSession_eq]
  exact release_lc _ _ (by simp [hn, hb])

theorem armOps_lifecycle (c : ErrC) : ∀ op ∈ [Op.emit (.err c), Op.drain], op.lifecycle = false := by
  intro op h; simp at h; rcases h with rfl | rfl <;> rfl

theorem runStartArm_lc (ops : List Op) (s : S) (hn : s.closeCalls = 0) (hb : s.initDone = true)
    (hl : ∀ op ∈ ops, op.lifecycle = false) : LCInv (runStartArm s ops) := by
  unfold runStartArm
  refine runOps_lc LCInv .startArm _ _ 0 true ?_ ?_ ?_ ops s none hn hb hl
  · intro s _ h1 h2; exact closeSession_lc _ _ h1 h2
  · intro s _ h1 h2; exact closeSession_lc _ _ h1 h2
  · intro s w r e h1 h2 hph hr; simp only [LCInv, hph]; exact ⟨h1, h2, hr⟩

theorem throwStart_lc (s : S) (e : Exc) (hn : s.closeCalls = 0) (hb : s.initDone = true) : LCInv (throwStart s e) := by
  unfold throwStart
  cases e with
  | cancelled =>
    simp only
    split
    · exact runStartArm_lc _ s hn hb (armOps_lifecycle _)
    · exact closeSession_lc _ _ hn hb
  | authFailed => exact closeSession_lc _ _ hn hb
  | mysqlError => exact closeSession_lc _ _ hn hb
  | generic => exact closeSession_lc _ _ hn hb
  | connLost => exact closeSession_lc _ _ hn hb

theorem toIdle_lc (s : S) (hn : s.closeCalls = 0) (hb : s.initDone = true) : LCInv (toIdle s) := by
  unfold toIdle
  split
  · exact throwStart_lc _ _ hn hb
  · split
    · exact closeSession_lc _ _ hn hb
    · split
      · exact throwStart_lc _ _ hn hb
      · exact ⟨hn, hb⟩

theorem runCmdArm_lc (ops : List Op) (s : S) (hn : s.closeCalls = 0) (hb : s.initDone = true)
    (hl : ∀ op ∈ ops, op.lifecycle = false) : LCInv (runCmdArm s ops) := by
  unfold runCmdArm
  refine runOps_lc LCInv .cmdArm _ _ 0 true ?_ ?_ ?_ ops s none hn hb hl
  · intro s _ h1 h2; split <;> exact toIdle_lc _ h1 h2
  · intro s e h1 h2; exact throwStart_lc _ _ h1 h2
  · intro s w r e h1 h2 hph hr; simp only [LCInv, hph]; exact ⟨h1, h2, hr⟩

theorem throwHandler_lc (s : S) (e : Exc) (hn : s.closeCalls = 0) (hb : s.initDone = true) : LCInv (throwHandler s e) := by
  unfold throwHandler
  cases e with
  | mysqlError => exact runCmdArm_lc _ _ hn hb (armOps_lifecycle _)
  | authFailed => exact throwStart_lc _ _ hn hb
  | cancelled =>
    simp only
    split
    · exact runCmdArm_lc _ _ hn hb (armOps_lifecycle _)
    · exact throwStart_lc _ _ hn hb
  | generic => exact runCmdArm_lc _ _ hn hb (armOps_lifecycle _)
  | connLost => exact runCmdArm_lc _ _ hn hb (armOps_lifecycle _)

theorem runHandler_lc (ops : List Op) (s : S) (hn : s.closeCalls = 0) (hb : s.initDone = true)
    (hl : ∀ op ∈ ops, op.lifecycle = false) : LCInv (runHandler s ops) := by
  unfold runHandler
  refine runOps_lc LCInv .handler _ _ 0 true ?_ ?_ ?_ ops s none hn hb hl
  · intro s _ h1 h2; exact toIdle_lc _ h1 h2
  · intro s e h1 h2; exact throwHandler_lc _ _ h1 h2
  · intro s w r e h1 h2 hph hr; simp only [LCInv, hph]; exact ⟨h1, h2, hr⟩

theorem throwConn_lc (s : S) (e : Exc) (hn : s.closeCalls = 0) (hb : s.initDone = false) : LCInv (throwConn s e) := by
  have hrel : ∀ (s' : S) (x : Option Exc), s'.closeCalls = 0 → s'.initDone = false → LCInv (release s' x) :=
    fun s' x h1 h2 => release_lc _ _ (by simp [h1, h2])
  have arm : LCInv (runConnArm s [.emit (.err .handshake), .drain] e) := by
    unfold runConnArm
    refine runOps_lc LCInv .connArm _ _ 0 false ?_ ?_ ?_ _ s (some e) hn hb (armOps_lifecycle _)
    · intro s x h1 h2; exact hrel _ _ h1 h2
    · intro s x h1 h2; exact hrel _ _ h1 h2
    · intro s w r x h1 h2 hph hr; simp only [LCInv, hph]; exact ⟨h1, h2, hr⟩
  unfold throwConn
  cases e with
  | authFailed => exact hrel _ _ (by rw [(flush_frame s).closeCalls]; exact hn) (by rw [(flush_frame s).initDone]; exact hb)
  | cancelled => exact hrel _ _ hn hb
  | mysqlError => exact arm
  | generic => exact arm
  | connLost => exact arm

theorem finishInit_lc (s : S) (hn : s.closeCalls = 0) (hb : s.initDone = false) : LCInv (finishInit s) := by
  unfold finishInit
  split
  · exact throwConn_lc _ _ hn hb
  · exact toIdle_lc _ hn rfl

theorem startInit_lc (s : S) (hn : s.closeCalls = 0) (hb : s.initDone = false) : LCInv (startInit s) := by
  unfold startInit
  split
  · split
    · exact throwConn_lc _ _ hn hb
    · exact ⟨hn, hb⟩
  · exact finishInit_lc _ hn hb

theorem runConnPhase_lc (ops : List Op) (s : S) (hn : s.closeCalls = 0) (hb : s.initDone = false)
    (hl : ∀ op ∈ ops, op.lifecycle = false) : LCInv (runConnPhase s ops) := by
  unfold runConnPhase
  refine runOps_lc LCInv .connPhase _ _ 0 false ?_ ?_ ?_ ops s none hn hb hl
  · intro s _ h1 h2; exact startInit_lc _ h1 h2
  · intro s e h1 h2; exact throwConn_lc _ _ h1 h2
  · intro s w r e h1 h2 hph hr; simp only [LCInv, hph]; exact ⟨h1, h2, hr⟩

end Mimic.Conn

namespace Mimic.Conn

/-- scripts carried by an event are free of life-cycle calls -/
def Ev.wf : Ev → Prop
  | .handshake script _ _ => ∀ op ∈ script, op.lifecycle = false
  | .cmd script => ∀ op ∈ script, op.lifecycle = false
  | _ => True

theorem throwAt_lc (s : S) (lvl : Lvl) (w : Wait) (rest : List Op) (exc : Option Exc) (e : Exc)
    (h : LCInv s) (hph : s.phase = .parked lvl w rest exc) (s1 : S)
    (hc : s1.closeCalls = s.closeCalls) (hi : s1.initDone = s.initDone) : LCInv (throwAt s1 lvl e) := by
  simp only [LCInv, hph] at h
  cases lvl with
  | connPhase => exact throwConn_lc _ _ (by rw [hc]; exact h.1) (by rw [hi]; exact h.2.1)
  | initing => exact throwConn_lc _ _ (by rw [hc]; exact h.1) (by rw [hi]; exact h.2)
  | connArm => exact release_lc _ _ (by rw [hc, hi, h.1, h.2.1]; rfl)
  | handler => exact throwHandler_lc _ _ (by rw [hc]; exact h.1) (by rw [hi]; exact h.2.1)
  | cmdArm => exact throwStart_lc _ _ (by rw [hc]; exact h.1) (by rw [hi]; exact h.2.1)
  | startArm => exact closeSession_lc _ _ (by rw [hc]; exact h.1) (by rw [hi]; exact h.2.1)
  | closing => exact absurd h (by simp)

theorem resumeAt_lc (s : S) (lvl : Lvl) (w : Wait) (rest : List Op) (exc : Option Exc)
    (h : LCInv s) (hph : s.phase = .parked lvl w rest exc) (s1 : S)
    (hc : s1.closeCalls = s.closeCalls) (hi : s1.initDone = s.initDone) : LCInv (resumeAt s1 lvl rest exc) := by
  simp only [LCInv, hph] at h
  cases lvl with
  | connPhase => exact runConnPhase_lc rest _ (by rw [hc]; exact h.1) (by rw [hi]; exact h.2.1) h.2.2
  | initing => exact finishInit_lc _ (by rw [hc]; exact h.1) (by rw [hi]; exact h.2)
  | connArm =>
    simp only [resumeAt]
    refine runOps_lc LCInv .connArm _ _ 0 false ?_ ?_ ?_ rest s1 exc (by rw [hc]; exact h.1) (by rw [hi]; exact h.2.1) h.2.2
    · intro s x h1 h2; exact release_lc _ _ (by simp [h1, h2])
    · intro s x h1 h2; exact release_lc _ _ (by simp [h1, h2])
    · intro s w r x h1 h2 hph hr; simp only [LCInv, hph]; exact ⟨h1, h2, hr⟩
  | handler => exact runHandler_lc rest _ (by rw [hc]; exact h.1) (by rw [hi]; exact h.2.1) h.2.2
  | cmdArm => exact runCmdArm_lc rest _ (by rw [hc]; exact h.1) (by rw [hi]; exact h.2.1) h.2.2
  | startArm => exact runStartArm_lc rest _ (by rw [hc]; exact h.1) (by rw [hi]; exact h.2.1) h.2.2
  | closing => exact absurd h (by simp)

theorem LCInv_congr (s s' : S) (hp : s'.phase = s.phase) (hc : s'.closeCalls = s.closeCalls) (hi : s'.initDone = s.initDone)
    (hr : s'.registered = s.registered) (ht : s'.transportClosed = s.transportClosed) (h : LCInv s) : LCInv s' := by
  unfold LCInv at *
  rw [hp, hc, hi, hr, ht]; exact h

/-- **The life-cycle invariant is preserved by EVERY event**: handshake, commands, the application resuming, the
    client blocking / unblocking, kills and their delivery, the client closing its side, the transport failing. -/
theorem step_lc (s : S) (ev : Ev) (hwf : ev.wf) (h : LCInv s) : LCInv (step s ev) := by
  cases ev with
  | handshake script isusp ifails =>
    simp only [step]
    split
    · rename_i hph
      simp only [LCInv, hph] at h
      exact runConnPhase_lc script _ h.1 h.2 hwf
    · exact h
  | cmd script =>
    simp only [step]
    split
    · rename_i hph
      simp only [LCInv, hph] at h
      exact runHandler_lc script _ h.1 h.2 hwf
    · exact h
  | resume =>
    simp only [step]
    split
    · exact h
    · split
      · rename_i lvl rest exc hph
        exact resumeAt_lc s lvl .future rest exc h hph s rfl rfl
      · exact h
  | block => exact LCInv_congr s _ rfl rfl rfl rfl rfl h
  | unblock =>
    simp only [step]
    split
    · exact LCInv_congr s _ rfl rfl rfl rfl rfl h
    · split
      · rename_i lvl rest exc hph
        exact resumeAt_lc s lvl .drain rest exc h hph _ rfl rfl
      · exact LCInv_congr s _ rfl rfl rfl rfl rfl h
  | kill k =>
    simp only [step]
    split
    · exact h
    · cases k with
      | query => simp only; split <;> first | exact h | exact LCInv_congr s _ rfl rfl rfl rfl rfl h
      | conn => exact LCInv_congr s _ rfl rfl rfl rfl rfl h
  | deliver =>
    simp only [step]
    split
    · split
      · exact h
      · rename_i hph
        simp only [LCInv, hph] at h
        exact throwConn_lc _ _ h.1 h.2
      · rename_i hph
        simp only [LCInv, hph] at h
        exact throwStart_lc _ _ h.1 h.2
      · rename_i lvl w rest exc hph
        exact throwAt_lc s lvl w rest exc .cancelled h hph _ rfl rfl
    · exact h
  | eof =>
    simp only [step]
    split
    · rename_i hph
      simp only [LCInv, hph] at h
      exact throwConn_lc _ _ h.1 h.2
    · rename_i hph
      simp only [LCInv, hph] at h
      exact closeSession_lc _ _ h.1 h.2
    · exact h
    · exact LCInv_congr s _ rfl rfl rfl rfl rfl h
  | lose =>
    simp only [step]
    split
    · exact h
    · rename_i hph
      simp only [LCInv, hph] at h
      exact throwConn_lc _ _ h.1 h.2
    · rename_i hph
      simp only [LCInv, hph] at h
      exact throwStart_lc _ _ h.1 h.2
    · rename_i lvl rest exc hph
      exact throwAt_lc s lvl .drain rest exc .connLost h hph _ rfl rfl
    · exact LCInv_congr s _ rfl rfl rfl rfl rfl h

theorem init_lc : LCInv init := ⟨rfl, rfl⟩

theorem runAll_lc (evs : List Ev) (hwf : ∀ e ∈ evs, e.wf) : ∀ s, LCInv s → LCInv (runAll s evs) := by
  induction evs with
  | nil => intro s h; exact h
  | cons e es ih => intro s h; exact ih (fun x hx => hwf x (by simp [hx])) _ (step_lc s e (hwf e (by simp)) h)

end Mimic.Conn
