import Mimic.Like
namespace MimicProofs.Like
open Mimic.Like

theorem like_sound : ∀ (p s : List Char), like p s = true → Matches (tr p) s := by
  intro p
  induction p with
  | nil => intro s h; simp [like] at h; subst h; exact .nil
  | cons c cs ih =>
    intro s
    induction s with
    | nil =>
      intro h
      rw [like] at h
      by_cases hc : c = '%'
      · simp [hc] at h; simp only [tr, hc, if_true]; exact .star0 (ih _ h)
      · simp [hc] at h
    | cons x xs ihs =>
      intro h
      rw [like] at h
      by_cases hc : c = '%'
      · simp only [hc, if_true, Bool.or_eq_true] at h
        simp only [tr, hc, if_true]
        rcases h with h | h
        · exact .star0 (ih _ h)
        · have := ihs (by simpa [hc] using h)
          simp only [tr, hc, if_true] at this
          exact .starS this
      · simp only [hc, if_false, Bool.and_eq_true, Bool.or_eq_true, decide_eq_true_eq] at h
        obtain ⟨h1, h2⟩ := h
        simp only [tr, hc, if_false]
        by_cases hu : c = '_'
        · simp only [hu, if_true]; exact .dot (ih _ h2)
        · simp only [hu, if_false]
          have : c = x := by simpa [hu] using h1
          subst this; exact .chr (ih _ h2)

theorem like_complete : ∀ (as : List A) (s : List Char), Matches as s → ∀ p, tr p = as → like p s = true := by
  intro as s hm
  induction hm with
  | nil => intro p hp; cases p with
    | nil => simp [like]
    | cons c cs => simp [tr] at hp
  | @chr c as s _ ih =>
    intro p hp
    cases p with
    | nil => simp [tr] at hp
    | cons d ds =>
      simp only [tr, List.cons.injEq] at hp
      obtain ⟨h1, h2⟩ := hp
      by_cases hd : d = '%'
      · simp [hd] at h1
      · by_cases hu : d = '_'
        · simp [hd, hu] at h1
        · simp [hd, hu] at h1; subst h1
          rw [like]; simp [hd, ih _ h2]
  | @dot x as s _ ih =>
    intro p hp
    cases p with
    | nil => simp [tr] at hp
    | cons d ds =>
      simp only [tr, List.cons.injEq] at hp
      obtain ⟨h1, h2⟩ := hp
      by_cases hd : d = '%'
      · simp [hd] at h1
      · by_cases hu : d = '_'
        · rw [like]; simp [hd, hu, ih _ h2]
        · simp [hd, hu] at h1
  | @star0 as s _ ih =>
    intro p hp
    cases p with
    | nil => simp [tr] at hp
    | cons d ds =>
      simp only [tr, List.cons.injEq] at hp
      obtain ⟨h1, h2⟩ := hp
      by_cases hd : d = '%'
      · have := ih _ h2
        cases s <;> (rw [like]; simp [hd, this])
      · by_cases hu : d = '_' <;> simp [hd, hu] at h1
  | @starS x as s _ ih =>
    intro p hp
    cases p with
    | nil => simp [tr] at hp
    | cons d ds =>
      have hp' := hp
      simp only [tr, List.cons.injEq] at hp
      obtain ⟨h1, h2⟩ := hp
      by_cases hd : d = '%'
      · rw [like]; simp only [hd, if_true, Bool.or_eq_true]; right
        have := ih (d :: ds) hp'
        simpa [hd] using this
      · by_cases hu : d = '_' <;> simp [hd, hu] at h1

end MimicProofs.Like
