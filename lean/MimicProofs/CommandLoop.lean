import MimicProofs.HandlersCode
/-!
The `while True` of `Connection.command_phase` as generated from `/repo` (`Mimic.Extracted.HandlersCode.command_loop`: read a
packet, run one iteration, go on unless the iteration returned), for **every sequence of packets** a client sends — well-formed
or not, of any length — and every behaviour of the handlers that are parameters.  Kills (cancellation at an `await`) are the
connection machine's subject (`Mimic.Conn`), not this file's.
-/
namespace MimicProofs.CommandLoop
open Mimic.Py Mimic.Extracted.HandlersCode MimicProofs.HandlersCode
open Mimic.Extracted.ParsersCode (ComFieldList)

variable {S : Type} [DecidableEq S]

section loop
variable (E : Env S) (cp : S → Nat) (pc : Nat → Bytes) (coldef : Nat → Nat → Bytes)
  (parse : Connection S → Bytes → Option (ComStmtExecute S)) (app : S → Option (ResultSet S))
  (ur : S → Bool) (fls : ComFieldList S → S) (fcd : Nat → S → Bytes → Bytes)
  (other : Nat → Connection S → Bytes → Except (Connection S) (Connection S)) (err : Connection S → Bytes)
  (af : Nat → Connection S → Bytes → Option (Connection S))

/-- a packet is COM_QUIT iff its first byte is 1 -/
def isQuit (data : Bytes) : Bool := data.head? == some (1 : UInt8)

/-- a packet is COM_CHANGE_USER (the one untranslated handler) iff its first byte is 17 -/
def isChangeUser (data : Bytes) : Bool := data.head? == some (17 : UInt8)

/-- one iteration leaves the executing flag cleared and ends by resetting the sequence, whatever the packet -/
theorem step_clears_and_resets (c : Connection S) (data : Bytes) :
    (command_step E cp pc coldef parse app ur fls fcd other err af c data).1._executing = false ∧
    ∃ pre, (command_step E cp pc coldef parse app ur fls fcd other err af c data).1.out = pre ++ [Ev.reset_seq] := by
  have h := command_step_spec E cp pc coldef parse app ur fls fcd other err af c data
  dsimp only at h
  cases ha : authEnded af c data with
  | some s => rw [ha] at h; dsimp only at h; rw [h]; exact ⟨rfl, s.out, rfl⟩
  | none =>
    rw [ha] at h; dsimp only at h
    cases data with
    | nil =>
      dsimp only at h
      rw [h]
      exact ⟨rfl, c.out ++ [Ev.write (err { c with _executing := false }) true], by simp⟩
    | cons command rest =>
      dsimp only at h
      cases hd : dispatch E cp pc coldef parse app ur fls fcd other ({ c with _executing := true } : Connection S) command.toNat rest with
      | error s =>
        rw [hd] at h; dsimp only at h; rw [h]
        exact ⟨rfl, s.out ++ [Ev.write (err { s with _executing := false }) true], by simp⟩
      | ok o =>
        cases o with
        | none => rw [hd] at h; dsimp only at h; rw [h]; exact ⟨rfl, c.out, rfl⟩
        | some s => rw [hd] at h; dsimp only at h; rw [h]; exact ⟨rfl, s.out, rfl⟩

/-- only a COM_CHANGE_USER packet can be ended by `AuthenticationFailed` -/
theorem authEnded_only_change_user (c : Connection S) (data : Bytes) (s : Connection S) (h : authEnded af c data = some s) :
    isChangeUser data = true := by
  cases data with
  | nil => simp [authEnded] at h
  | cons command rest =>
    simp [authEnded, untranslated] at h
    have : command = 17 := UInt8.toNat_inj.mp (by simpa using h.1)
    subst this; rfl

/-- when no COM_CHANGE_USER fails its authentication, the `AuthenticationFailed` arm is never taken -/
theorem authEnded_none (hno : ∀ c d, af 17 c d = none) (c : Connection S) (data : Bytes) : authEnded af c data = none := by
  cases data with
  | nil => rfl
  | cons command rest =>
    simp only [authEnded]
    by_cases hu : untranslated.contains command.toNat = true
    · have h17 : command.toNat = 17 := by simpa [untranslated] using hu
      rw [if_pos hu, h17]; exact hno _ _
    · rw [if_neg hu]

/-- **an iteration ends the loop iff the packet is COM_QUIT, or it is a COM_CHANGE_USER whose handler raised
    `AuthenticationFailed`** — no other handler, no other failure and no malformed packet ends the command phase -/
theorem step_stops_iff (c : Connection S) (data : Bytes) :
    (command_step E cp pc coldef parse app ur fls fcd other err af c data).2 = false ↔
      (isQuit data = true ∨ (authEnded af c data).isSome = true) := by
  have h := command_step_spec E cp pc coldef parse app ur fls fcd other err af c data
  dsimp only at h
  cases ha : authEnded af c data with
  | some s => rw [ha] at h; dsimp only at h; rw [h]; simp
  | none =>
    rw [ha] at h; dsimp only at h
    simp only [Option.isSome_none, Bool.false_eq_true, or_false]
    cases data with
    | nil =>
      dsimp only at h
      rw [h]; simp [isQuit]
    | cons command rest =>
      dsimp only at h
      have hq := dispatch_quit_iff E cp pc coldef parse app ur fls fcd other ({ c with _executing := true } : Connection S) command.toNat rest
      have hb : isQuit (command :: rest) = true ↔ command.toNat = 1 := by
        simp only [isQuit, List.head?_cons, beq_iff_eq, Option.some.injEq]
        constructor
        · intro e; subst e; rfl
        · intro e; exact UInt8.toNat_inj.mp (by simpa using e)
      cases hd : dispatch E cp pc coldef parse app ur fls fcd other ({ c with _executing := true } : Connection S) command.toNat rest with
      | error s =>
        rw [hd] at h hq; dsimp only at h; rw [h, hb]
        constructor
        · intro e; cases e
        · intro e; exact absurd (hq.mpr e) (by simp)
      | ok o =>
        cases o with
        | none =>
          rw [hd] at h hq; dsimp only at h; rw [h, hb]
          exact ⟨fun _ => hq.mp rfl, fun _ => rfl⟩
        | some s =>
          rw [hd] at h hq; dsimp only at h; rw [h, hb]
          constructor
          · intro e; cases e
          · intro e; exact absurd (hq.mpr e) (by simp)

/-- COM_QUIT always ends the loop -/
theorem step_quit_stops (c : Connection S) (data : Bytes) (hq : isQuit data = true) :
    (command_step E cp pc coldef parse app ur fls fcd other err af c data).2 = false :=
  (step_stops_iff E cp pc coldef parse app ur fls fcd other err af c data).mpr (Or.inl hq)

/-- whatever ends the loop is a COM_QUIT or a COM_CHANGE_USER packet -/
theorem step_stops_only (c : Connection S) (data : Bytes)
    (h : (command_step E cp pc coldef parse app ur fls fcd other err af c data).2 = false) :
    isQuit data = true ∨ isChangeUser data = true := by
  rcases (step_stops_iff E cp pc coldef parse app ur fls fcd other err af c data).mp h with hq | ha
  · exact Or.inl hq
  · obtain ⟨s, hs⟩ := Option.isSome_iff_exists.mp ha
    exact Or.inr (authEnded_only_change_user af c data s hs)

/-- **COM_QUIT is not answered**: the iteration adds nothing to the wire but the sequence reset, changes nothing else, and ends
    the loop — whatever follows the command byte -/
theorem quit_exchange (c : Connection S) (rest : Bytes) :
    command_step E cp pc coldef parse app ur fls fcd other err af c (1 :: rest)
      = ({ c with _executing := false, out := c.out ++ [Ev.reset_seq] }, false) := by
  have hu : untranslated.contains (1 : UInt8).toNat = false := by decide
  have hd : dispatch E cp pc coldef parse app ur fls fcd other ({ c with _executing := true } : Connection S) (1 : UInt8).toNat rest = .ok none :=
    (dispatch_quit_iff E cp pc coldef parse app ur fls fcd other _ _ rest).mpr rfl
  simp only [command_step, hu, Bool.false_eq_true, if_false, hd]

/-- **an unsupported command byte is answered by exactly one ERR**: nothing else is written, nothing else changes, the loop
    goes on -/
theorem unsupported_exchange (c : Connection S) (command : UInt8) (rest : Bytes) (h : command.toNat ∉ dispatched) :
    command_step E cp pc coldef parse app ur fls fcd other err af c (command :: rest)
      = ({ c with _executing := false, out := c.out ++ [Ev.write (err { c with _executing := false }) true, Ev.reset_seq] }, true) := by
  have hu : untranslated.contains command.toNat = false := by
    have h17 : command.toNat ≠ 17 := fun e => h (by rw [e]; decide)
    simp [untranslated, h17]
  have hd := dispatch_unsupported E cp pc coldef parse app ur fls fcd other ({ c with _executing := true } : Connection S) command.toNat rest h
  simp only [command_step, hu, Bool.false_eq_true, if_false, hd, List.append_assoc, List.cons_append, List.nil_append]

/-- **COM_PING is answered by exactly one OK** (drained), nothing else changes, the loop goes on — whatever follows the command byte -/
theorem ping_exchange (c : Connection S) (rest : Bytes) :
    ∃ (e : Bool) (a l w f : Nat), command_step E cp pc coldef parse app ur fls fcd other err af c (14 :: rest)
      = ({ c with _executing := false,
                  out := c.out ++ [Ev.write (ok ({ c with _executing := true } : Connection S) e a l w f) true, Ev.reset_seq] }, true) := by
  have hu : untranslated.contains (14 : UInt8).toNat = false := by decide
  obtain ⟨⟨e, a, l, w, f, hp⟩, _, _⟩ := simple_handlers_spec ({ c with _executing := true } : Connection S) rest
  refine ⟨e, a, l, w, f, ?_⟩
  have hd : dispatch E cp pc coldef parse app ur fls fcd other ({ c with _executing := true } : Connection S) (14 : UInt8).toNat rest
      = (handle_ping ({ c with _executing := true } : Connection S) rest).map some := by
    simp [dispatch]
  simp only [command_step, hu, Bool.false_eq_true, if_false, hd, hp, Except.map, List.append_assoc, List.cons_append, List.nil_append]

/-- **a whole COM_INIT_DB exchange**: a name that does not decode → exactly one ERR, the application is not told; otherwise the
    application's `use` is told the decoded name exactly once, *before* anything is written, and then exactly one OK — or, iff
    `use` raised, exactly one ERR; the sequence reset comes last and the loop goes on -/
theorem init_db_exchange (c : Connection S) (rest : Bytes) :
    let c1 : Connection S := { c with _executing := true }
    match Mimic.Extracted.ParsersCode.parse_com_init_db E c.client_charset rest with
    | none => command_step E cp pc coldef parse app ur fls fcd other err af c (2 :: rest)
        = ({ c with _executing := false, out := c.out ++ [Ev.write (err { c with _executing := false }) true, Ev.reset_seq] }, true)
    | some db =>
      if ur db then
        command_step E cp pc coldef parse app ur fls fcd other err af c (2 :: rest)
          = ({ c with _executing := false,
                      out := c.out ++ [Ev.session_use db, Ev.write (err { c with _executing := false, out := c.out ++ [Ev.session_use db] }) true, Ev.reset_seq] }, true)
      else ∃ (e : Bool) (a l w f : Nat),
        command_step E cp pc coldef parse app ur fls fcd other err af c (2 :: rest)
          = ({ c with _executing := false, out := c.out ++ [Ev.session_use db, Ev.write (ok c1 e a l w f) true, Ev.reset_seq] }, true) := by
  intro c1
  have hu : untranslated.contains (2 : UInt8).toNat = false := by decide
  have hd : dispatch E cp pc coldef parse app ur fls fcd other c1 (2 : UInt8).toNat rest = (handle_init_db E ur c1 rest).map some := by
    simp [dispatch]
  have hs := handle_init_db_spec E ur c1 rest
  have hcs : c1.client_charset = c.client_charset := rfl
  rw [hcs] at hs
  cases hp : Mimic.Extracted.ParsersCode.parse_com_init_db E c.client_charset rest with
  | none =>
    rw [hp] at hs; dsimp only at hs ⊢
    simp only [command_step, hu, Bool.false_eq_true, if_false]
    rw [hd, hs]
    simp only [Except.map, List.append_assoc, List.cons_append, List.nil_append]
    rfl
  | some db =>
    rw [hp] at hs; dsimp only at hs ⊢
    by_cases hr : ur db = true
    · rw [if_pos hr] at hs; rw [if_pos hr]
      simp only [command_step, hu, Bool.false_eq_true, if_false]
      rw [hd, hs]
      simp only [Except.map, List.append_assoc, List.cons_append, List.nil_append]
      rfl
    · rw [if_neg hr] at hs; rw [if_neg hr]
      obtain ⟨e, a, l, w, f, hs⟩ := hs
      refine ⟨e, a, l, w, f, ?_⟩
      simp only [command_step, hu, Bool.false_eq_true, if_false]
      rw [hd, hs]
      simp only [Except.map, List.append_assoc, List.cons_append, List.nil_append]
      rfl

/-- **a whole COM_FIELD_LIST exchange**: a payload that does not parse, or a catalog statement the application side rejects →
    exactly one ERR; otherwise one column definition per row of the catalog's answer, in order, then exactly one terminator
    (drained) — or, iff the row source raised, exactly one ERR after the definitions sent so far; the sequence reset comes last
    and the loop goes on -/
theorem field_list_exchange (c : Connection S) (rest : Bytes) :
    let c1 : Connection S := { c with _executing := true }
    match Mimic.Extracted.ParsersCode.parse_com_field_list E c.client_charset rest with
    | none => command_step E cp pc coldef parse app ur fls fcd other err af c (4 :: rest)
        = ({ c with _executing := false, out := c.out ++ [Ev.write (err { c with _executing := false }) true, Ev.reset_seq] }, true)
    | some f =>
      match app (fls f) with
      | none => command_step E cp pc coldef parse app ur fls fcd other err af c (4 :: rest)
          = ({ c with _executing := false, out := c.out ++ [Ev.write (err { c with _executing := false }) true, Ev.reset_seq] }, true)
      | some rs =>
        ∃ (a l w fl : Nat),
          let defs := rs.rows.rows.map (fun r => Ev.write (fcd c.server_charset f.table r) false)
          command_step E cp pc coldef parse app ur fls fcd other err af c (4 :: rest)
            = if rs.rows.boom then
                ({ c with _executing := false,
                          out := c.out ++ defs ++ [Ev.write (err { c with _executing := false, out := c.out ++ defs }) true, Ev.reset_seq] }, true)
              else
                ({ c with _executing := false, out := c.out ++ defs ++ [Ev.write (ok_or_eof c1 a l w fl) true, Ev.reset_seq] }, true) := by
  intro c1
  have hu : untranslated.contains (4 : UInt8).toNat = false := by decide
  have hd : dispatch E cp pc coldef parse app ur fls fcd other c1 (4 : UInt8).toNat rest = (handle_field_list E app fls fcd c1 rest).map some := by
    simp [dispatch]
  have hs := handle_field_list_spec E app fls fcd c1 rest
  have hcs : c1.client_charset = c.client_charset := rfl
  have hss : c1.server_charset = c.server_charset := rfl
  rw [hcs] at hs
  cases hp : Mimic.Extracted.ParsersCode.parse_com_field_list E c.client_charset rest with
  | none =>
    rw [hp] at hs; dsimp only at hs ⊢
    simp only [command_step, hu, Bool.false_eq_true, if_false]
    rw [hd, hs]
    simp only [Except.map, List.append_assoc, List.cons_append, List.nil_append]
    rfl
  | some f =>
    rw [hp] at hs; dsimp only at hs ⊢
    cases ha : app (fls f) with
    | none =>
      rw [ha] at hs; dsimp only at hs ⊢
      simp only [command_step, hu, Bool.false_eq_true, if_false]
      rw [hd, hs]
      simp only [Except.map, List.append_assoc, List.cons_append, List.nil_append]
      rfl
    | some rs =>
      rw [ha] at hs; dsimp only at hs ⊢
      obtain ⟨a, l, w, fl, hs⟩ := hs
      refine ⟨a, l, w, fl, ?_⟩
      simp only [command_step, hu, Bool.false_eq_true, if_false]
      rw [hd, hs, hss]
      by_cases hb : rs.rows.boom = true
      · simp only [hb, if_true, Except.map, List.append_assoc, List.cons_append, List.nil_append]
        rfl
      · simp only [hb, Bool.false_eq_true, if_false, Except.map, List.append_assoc, List.cons_append, List.nil_append]
        rfl

/-- **a whole COM_STMT_PREPARE exchange**: text that does not decode → exactly one ERR, no statement registered; otherwise the
    statement is registered under the id the response announces, with the number of placeholders of its text, the prepare-OK
    block is written and drained once, the id counter advances; the sequence reset comes last and the loop goes on -/
theorem prepare_exchange (c : Connection S) (rest : Bytes) :
    let c1 : Connection S := { c with _executing := true }
    match E.decode c.client_charset rest with
    | none => command_step E cp pc coldef parse app ur fls fcd other err af c (22 :: rest)
        = ({ c with _executing := false, out := c.out ++ [Ev.write (err { c with _executing := false }) true, Ev.reset_seq] }, true)
    | some sql =>
      let st : PreparedStatement S := { stmt_id := c.prepared_stmt_seq.value, sql := sql, num_params := cp sql, param_buffers := none, cursor := none }
      ∃ (c' : Connection S) (w f : Nat), command_step E cp pc coldef parse app ur fls fcd other err af c (22 :: rest)
          = ({ c' with _executing := false, out := c'.out ++ [Ev.reset_seq] }, true) ∧
        c'.prepared_stmts = dictSet c.prepared_stmts c.prepared_stmt_seq.value st ∧
        c'.prepared_stmt_seq = (seq_next c.prepared_stmt_seq).2 ∧
        c'.out = c.out ++ (prepareResponse pc c1 st w f).map (fun p => Ev.write p false) ++ [Ev.drain] := by
  intro c1
  have hu : untranslated.contains (22 : UInt8).toNat = false := by decide
  have hd : dispatch E cp pc coldef parse app ur fls fcd other c1 (22 : UInt8).toNat rest = (handle_stmt_prepare E cp pc c1 rest).map some := by
    simp [dispatch]
  have hs := handle_stmt_prepare_spec E cp pc c1 rest
  have hcs : c1.client_charset = c.client_charset := rfl
  rw [hcs] at hs
  cases hp : E.decode c.client_charset rest with
  | none =>
    rw [hp] at hs; dsimp only at hs ⊢
    simp only [command_step, hu, Bool.false_eq_true, if_false]
    rw [hd, hs]
    simp only [Except.map, List.append_assoc, List.cons_append, List.nil_append]
    rfl
  | some sql =>
    rw [hp] at hs; dsimp only at hs ⊢
    obtain ⟨c', w, f, hr, h1, h2, _, _, h5⟩ := hs
    refine ⟨c', w, f, ?_, h1, h2, h5⟩
    simp only [command_step, hu, Bool.false_eq_true, if_false]
    rw [hd, hr]
    rfl

/-- the loop, one packet at a time -/
theorem loop_cons (c : Connection S) (p : Bytes) (ps : List Bytes) :
    command_loop E cp pc coldef parse app ur fls fcd other err af c (p :: ps)
      = if (command_step E cp pc coldef parse app ur fls fcd other err af c p).2 = true then command_loop E cp pc coldef parse app ur fls fcd other err af (command_step E cp pc coldef parse app ur fls fcd other err af c p).1 ps
        else ((command_step E cp pc coldef parse app ur fls fcd other err af c p).1, true) := by
  simp only [command_loop]
  split <;> rename_i s heq <;> simp [heq]

/-- the loop over `ps ++ qs`: the loop over `ps`, and — unless that ended with COM_QUIT — the loop over `qs` from where it
    stopped -/
theorem loop_append (c : Connection S) (ps qs : List Bytes) :
    command_loop E cp pc coldef parse app ur fls fcd other err af c (ps ++ qs)
      = if (command_loop E cp pc coldef parse app ur fls fcd other err af c ps).2 then command_loop E cp pc coldef parse app ur fls fcd other err af c ps
        else command_loop E cp pc coldef parse app ur fls fcd other err af (command_loop E cp pc coldef parse app ur fls fcd other err af c ps).1 qs := by
  induction ps generalizing c with
  | nil => simp [command_loop]
  | cons p ps ih =>
    rw [List.cons_append, loop_cons, loop_cons]
    by_cases hg : (command_step E cp pc coldef parse app ur fls fcd other err af c p).2 = true
    · simp only [hg, if_true]; exact ih _
    · simp [hg]

/-- **the loop is ended only by a COM_QUIT or a COM_CHANGE_USER packet** (the latter when its authentication fails): no other
    packet and no failure ends the command phase while the peer is there -/
theorem loop_ends_only (c : Connection S) (ps : List Bytes)
    (h : (command_loop E cp pc coldef parse app ur fls fcd other err af c ps).2 = true) :
    ∃ p ∈ ps, isQuit p = true ∨ isChangeUser p = true := by
  induction ps generalizing c with
  | nil => simp [command_loop] at h
  | cons p ps ih =>
    rw [loop_cons] at h
    by_cases hg : (command_step E cp pc coldef parse app ur fls fcd other err af c p).2 = true
    · simp only [hg, if_true] at h
      obtain ⟨q, hq, hq'⟩ := ih _ h
      exact ⟨q, List.mem_cons_of_mem _ hq, hq'⟩
    · have hf : (command_step E cp pc coldef parse app ur fls fcd other err af c p).2 = false := by simpa using hg
      exact ⟨p, List.mem_cons_self, step_stops_only E cp pc coldef parse app ur fls fcd other err af c p hf⟩

/-- **a COM_QUIT always ends it** -/
theorem loop_quit_ends (c : Connection S) (ps : List Bytes) (h : ∃ p ∈ ps, isQuit p = true) :
    (command_loop E cp pc coldef parse app ur fls fcd other err af c ps).2 = true := by
  induction ps generalizing c with
  | nil => simp at h
  | cons p ps ih =>
    rw [loop_cons]
    by_cases hg : (command_step E cp pc coldef parse app ur fls fcd other err af c p).2 = true
    · simp only [hg, if_true]
      obtain ⟨q, hq, hq'⟩ := h
      rcases List.mem_cons.mp hq with e | hm
      · subst e
        have := step_quit_stops E cp pc coldef parse app ur fls fcd other err af c q hq'
        rw [hg] at this; cases this
      · exact ih _ ⟨q, hm, hq'⟩
    · simp [hg]

/-- when no COM_CHANGE_USER fails its authentication (in particular when none is sent), **the loop ends iff the client sent a
    COM_QUIT** -/
theorem loop_quit_iff (hno : ∀ c d, af 17 c d = none) (c : Connection S) (ps : List Bytes) :
    (command_loop E cp pc coldef parse app ur fls fcd other err af c ps).2 = true ↔ ∃ p ∈ ps, isQuit p = true := by
  refine ⟨?_, loop_quit_ends E cp pc coldef parse app ur fls fcd other err af c ps⟩
  induction ps generalizing c with
  | nil => simp [command_loop]
  | cons p ps ih =>
    rw [loop_cons]
    by_cases hg : (command_step E cp pc coldef parse app ur fls fcd other err af c p).2 = true
    · simp only [hg, if_true]
      intro h; obtain ⟨q, hq, hq'⟩ := ih _ h
      exact ⟨q, List.mem_cons_of_mem _ hq, hq'⟩
    · have hf : (command_step E cp pc coldef parse app ur fls fcd other err af c p).2 = false := by simpa using hg
      intro _
      rcases (step_stops_iff E cp pc coldef parse app ur fls fcd other err af c p).mp hf with hq | ha
      · exact ⟨p, List.mem_cons_self, hq⟩
      · rw [authEnded_none af hno] at ha; cases ha

/-- **nothing after COM_QUIT is looked at**: the packets a client pipelines behind its QUIT change neither the state nor
    what was written -/
theorem loop_ignores_after_quit (c : Connection S) (pre post : List Bytes) (q : Bytes) (hq : isQuit q = true) :
    command_loop E cp pc coldef parse app ur fls fcd other err af c (pre ++ q :: post)
      = command_loop E cp pc coldef parse app ur fls fcd other err af c (pre ++ [q]) := by
  have h1 : (command_loop E cp pc coldef parse app ur fls fcd other err af c (pre ++ [q])).2 = true :=
    loop_quit_ends E cp pc coldef parse app ur fls fcd other err af c (pre ++ [q]) ⟨q, by simp, hq⟩
  have : pre ++ q :: post = (pre ++ [q]) ++ post := by simp
  rw [this, loop_append, h1]; rfl

/-- **after any non-empty conversation** the executing flag is cleared and the last thing done was the sequence reset: every
    command, whatever became of it, leaves the connection ready for a packet numbered 0 -/
theorem loop_clears_and_resets (c : Connection S) (ps : List Bytes) (hne : ps ≠ []) :
    (command_loop E cp pc coldef parse app ur fls fcd other err af c ps).1._executing = false ∧
    ∃ pre, (command_loop E cp pc coldef parse app ur fls fcd other err af c ps).1.out = pre ++ [Ev.reset_seq] := by
  induction ps generalizing c with
  | nil => exact absurd rfl hne
  | cons p ps ih =>
    have hst := step_clears_and_resets E cp pc coldef parse app ur fls fcd other err af c p
    rw [loop_cons]
    by_cases hg : (command_step E cp pc coldef parse app ur fls fcd other err af c p).2 = true
    · simp only [hg, if_true]
      cases ps with
      | nil => simpa [command_loop] using hst
      | cons p' ps' => exact ih _ (by simp)
    · simpa [hg] using hst

/-- the number of sequence resets in a list of effects -/
def resets (out : List (Ev S)) : Nat := out.countP (fun e => match e with | Ev.reset_seq => true | _ => false)

/-- the packets the loop looks at: up to and including the first COM_QUIT -/
def served : List Bytes → List Bytes
  | [] => []
  | p :: ps => if isQuit p then [p] else p :: served ps

theorem loop_served (c : Connection S) (ps : List Bytes) :
    command_loop E cp pc coldef parse app ur fls fcd other err af c ps
      = command_loop E cp pc coldef parse app ur fls fcd other err af c (served ps) := by
  induction ps generalizing c with
  | nil => rfl
  | cons p ps ih =>
    by_cases hp : isQuit p = true
    · have hf := step_quit_stops E cp pc coldef parse app ur fls fcd other err af c p hp
      simp only [served, hp, if_true]
      rw [loop_cons, loop_cons]; simp [hf]
    · have hp' : isQuit p = false := by simpa using hp
      simp only [served, hp', Bool.false_eq_true, if_false]
      rw [loop_cons, loop_cons]
      by_cases hg : (command_step E cp pc coldef parse app ur fls fcd other err af c p).2 = true
      · simp only [hg, if_true]; exact ih _
      · simp [hg]

end loop
end MimicProofs.CommandLoop
