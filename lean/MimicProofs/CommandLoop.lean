import MimicProofs.HandlersCode
/-!
The `while True` of `Connection.command_phase` as generated from `/repo` (`Mimic.Extracted.HandlersCode.command_loop`: read a
packet, run one iteration, go on unless the iteration returned), for **every sequence of packets** a client sends — well-formed
or not, of any length — and every behaviour of the handlers that are parameters.  Kills (cancellation at an `await`) are the
connection machine's subject (`Mimic.Conn`), not this file's.
-/
namespace MimicProofs.CommandLoop
open Mimic.Py Mimic.Extracted.HandlersCode MimicProofs.HandlersCode
open Mimic.Extracted.ParsersCode (ComFieldList)

variable {S : Type} [DecidableEq S]

section loop
variable (E : Env S) (cp : S → Nat) (pc : Nat → Bytes) (coldef : Nat → Nat → Bytes)
  (parse : Connection S → Bytes → Option (ComStmtExecute S)) (app : S → Option (ResultSet S))
  (ur : S → Bool) (fls : ComFieldList S → S) (fcd : Nat → S → Bytes → Bytes)
  (other : Nat → Connection S → Bytes → Except (Connection S) (Connection S)) (err : Connection S → Bytes)

/-- a packet is COM_QUIT iff its first byte is 1 -/
def isQuit (data : Bytes) : Bool := data.head? == some (1 : UInt8)

/-- one iteration leaves the executing flag cleared and ends by resetting the sequence, whatever the packet -/
theorem step_clears_and_resets (c : Connection S) (data : Bytes) :
    (command_step E cp pc coldef parse app ur fls fcd other err c data).1._executing = false ∧
    ∃ pre, (command_step E cp pc coldef parse app ur fls fcd other err c data).1.out = pre ++ [Ev.reset_seq] := by
  have h := command_step_spec E cp pc coldef parse app ur fls fcd other err c data
  cases data with
  | nil =>
    dsimp only at h
    rw [h]
    exact ⟨rfl, c.out ++ [Ev.write (err { c with _executing := false }) true], by simp⟩
  | cons command rest =>
    dsimp only at h
    cases hd : dispatch E cp pc coldef parse app ur fls fcd other ({ c with _executing := true } : Connection S) command.toNat rest with
    | error s =>
      rw [hd] at h; dsimp only at h; rw [h]
      exact ⟨rfl, s.out ++ [Ev.write (err { s with _executing := false }) true], by simp⟩
    | ok o =>
      cases o with
      | none => rw [hd] at h; dsimp only at h; rw [h]; exact ⟨rfl, c.out, rfl⟩
      | some s => rw [hd] at h; dsimp only at h; rw [h]; exact ⟨rfl, s.out, rfl⟩

/-- an iteration ends the loop iff the packet is COM_QUIT — no handler, no failure and no malformed packet ends it -/
theorem step_stops_iff_quit (c : Connection S) (data : Bytes) :
    (command_step E cp pc coldef parse app ur fls fcd other err c data).2 = false ↔ isQuit data = true := by
  have h := command_step_spec E cp pc coldef parse app ur fls fcd other err c data
  cases data with
  | nil =>
    dsimp only at h
    rw [h]; simp [isQuit]
  | cons command rest =>
    dsimp only at h
    have hq := dispatch_quit_iff E cp pc coldef parse app ur fls fcd other ({ c with _executing := true } : Connection S) command.toNat rest
    have hb : isQuit (command :: rest) = true ↔ command.toNat = 1 := by
      simp only [isQuit, List.head?_cons, beq_iff_eq, Option.some.injEq]
      constructor
      · intro e; subst e; rfl
      · intro e; exact UInt8.toNat_inj.mp (by simpa using e)
    cases hd : dispatch E cp pc coldef parse app ur fls fcd other ({ c with _executing := true } : Connection S) command.toNat rest with
    | error s =>
      rw [hd] at h hq; dsimp only at h; rw [h, hb]
      constructor
      · intro e; cases e
      · intro e; exact absurd (hq.mpr e) (by simp)
    | ok o =>
      cases o with
      | none =>
        rw [hd] at h hq; dsimp only at h; rw [h, hb]
        exact ⟨fun _ => hq.mp rfl, fun _ => rfl⟩
      | some s =>
        rw [hd] at h hq; dsimp only at h; rw [h, hb]
        constructor
        · intro e; cases e
        · intro e; exact absurd (hq.mpr e) (by simp)

/-- the loop, one packet at a time -/
theorem loop_cons (c : Connection S) (p : Bytes) (ps : List Bytes) :
    command_loop E cp pc coldef parse app ur fls fcd other err c (p :: ps)
      = if (command_step E cp pc coldef parse app ur fls fcd other err c p).2 = true then command_loop E cp pc coldef parse app ur fls fcd other err (command_step E cp pc coldef parse app ur fls fcd other err c p).1 ps
        else ((command_step E cp pc coldef parse app ur fls fcd other err c p).1, true) := by
  simp only [command_loop]
  split <;> rename_i s heq <;> simp [heq]

/-- the loop over `ps ++ qs`: the loop over `ps`, and — unless that ended with COM_QUIT — the loop over `qs` from where it
    stopped -/
theorem loop_append (c : Connection S) (ps qs : List Bytes) :
    command_loop E cp pc coldef parse app ur fls fcd other err c (ps ++ qs)
      = if (command_loop E cp pc coldef parse app ur fls fcd other err c ps).2 then command_loop E cp pc coldef parse app ur fls fcd other err c ps
        else command_loop E cp pc coldef parse app ur fls fcd other err (command_loop E cp pc coldef parse app ur fls fcd other err c ps).1 qs := by
  induction ps generalizing c with
  | nil => simp [command_loop]
  | cons p ps ih =>
    rw [List.cons_append, loop_cons, loop_cons]
    by_cases hg : (command_step E cp pc coldef parse app ur fls fcd other err c p).2 = true
    · simp only [hg, if_true]; exact ih _
    · simp [hg]

/-- **the loop ends by COM_QUIT iff the client sent one**: no other packet and no failure ends the command phase while the
    peer is there -/
theorem loop_quit_iff (c : Connection S) (ps : List Bytes) :
    (command_loop E cp pc coldef parse app ur fls fcd other err c ps).2 = true ↔ ∃ p ∈ ps, isQuit p = true := by
  induction ps generalizing c with
  | nil => simp [command_loop]
  | cons p ps ih =>
    rw [loop_cons]
    simp only [List.mem_cons, exists_eq_or_imp]
    have hq := step_stops_iff_quit E cp pc coldef parse app ur fls fcd other err c p
    by_cases hg : (command_step E cp pc coldef parse app ur fls fcd other err c p).2 = true
    · have : ¬ isQuit p = true := fun e => by have := hq.mpr e; rw [hg] at this; cases this
      simp only [hg, if_true, ih, this]
      simp
    · have hf : (command_step E cp pc coldef parse app ur fls fcd other err c p).2 = false := by simpa using hg
      simp [hg, hq.mp hf]

/-- **nothing after COM_QUIT is looked at**: the packets a client pipelines behind its QUIT change neither the state nor
    what was written -/
theorem loop_ignores_after_quit (c : Connection S) (pre post : List Bytes) (q : Bytes) (hq : isQuit q = true) :
    command_loop E cp pc coldef parse app ur fls fcd other err c (pre ++ q :: post)
      = command_loop E cp pc coldef parse app ur fls fcd other err c (pre ++ [q]) := by
  have h1 : (command_loop E cp pc coldef parse app ur fls fcd other err c (pre ++ [q])).2 = true :=
    (loop_quit_iff E cp pc coldef parse app ur fls fcd other err c (pre ++ [q])).mpr ⟨q, by simp, hq⟩
  have : pre ++ q :: post = (pre ++ [q]) ++ post := by simp
  rw [this, loop_append, h1]; rfl

/-- **after any non-empty conversation** the executing flag is cleared and the last thing done was the sequence reset: every
    command, whatever became of it, leaves the connection ready for a packet numbered 0 -/
theorem loop_clears_and_resets (c : Connection S) (ps : List Bytes) (hne : ps ≠ []) :
    (command_loop E cp pc coldef parse app ur fls fcd other err c ps).1._executing = false ∧
    ∃ pre, (command_loop E cp pc coldef parse app ur fls fcd other err c ps).1.out = pre ++ [Ev.reset_seq] := by
  induction ps generalizing c with
  | nil => exact absurd rfl hne
  | cons p ps ih =>
    have hst := step_clears_and_resets E cp pc coldef parse app ur fls fcd other err c p
    rw [loop_cons]
    by_cases hg : (command_step E cp pc coldef parse app ur fls fcd other err c p).2 = true
    · simp only [hg, if_true]
      cases ps with
      | nil => simpa [command_loop] using hst
      | cons p' ps' => exact ih _ (by simp)
    · simpa [hg] using hst

/-- the number of sequence resets in a list of effects -/
def resets (out : List (Ev S)) : Nat := out.countP (fun e => match e with | Ev.reset_seq => true | _ => false)

/-- the packets the loop looks at: up to and including the first COM_QUIT -/
def served : List Bytes → List Bytes
  | [] => []
  | p :: ps => if isQuit p then [p] else p :: served ps

theorem loop_served (c : Connection S) (ps : List Bytes) :
    command_loop E cp pc coldef parse app ur fls fcd other err c ps
      = command_loop E cp pc coldef parse app ur fls fcd other err c (served ps) := by
  induction ps generalizing c with
  | nil => rfl
  | cons p ps ih =>
    have hq := step_stops_iff_quit E cp pc coldef parse app ur fls fcd other err c p
    by_cases hp : isQuit p = true
    · have hf := hq.mpr hp
      simp only [served, hp, if_true]
      rw [loop_cons, loop_cons]; simp [hf]
    · have hg : (command_step E cp pc coldef parse app ur fls fcd other err c p).2 = true := by
        cases hh : (command_step E cp pc coldef parse app ur fls fcd other err c p).2 with
        | true => rfl
        | false => exact absurd (hq.mp hh) hp
      have hp' : isQuit p = false := by simpa using hp
      simp only [served, hp', Bool.false_eq_true, if_false]
      rw [loop_cons, loop_cons]; simp only [hg, if_true]; exact ih _

end loop
end MimicProofs.CommandLoop
