import Mimic.Params
import MimicProofs.Wire
import MimicProofs.Results
namespace Mimic.Params
open Mimic.Wire

/-! ### literals -/

theorem lexBody_esc (T : EscTable) (v rest : List Char) (hr : rest.head? ≠ some '\'') :
    lexBody T (esc v ++ '\'' :: rest) = some (v, rest) := by
  induction v with
  | nil =>
    cases rest with
    | nil => simp [esc, lexBody]
    | cons d ds =>
      have : d ≠ '\'' := by simpa using hr
      simp [esc, lexBody, this]
  | cons c cs ih =>
    simp only [esc]
    by_cases h1 : c = '\\'
    · subst h1
      simp [lexBody, ih, T.bs]
    · by_cases h2 : c = '\''
      · subst h2
        simp [lexBody, ih]
      · simp only [h1, h2, if_false, List.cons_append]
        cases hx : esc cs ++ '\'' :: rest with
        | nil => simp at hx
        | cons d ds =>
          rw [lexBody]
          simp only [h1, h2, if_false]
          rw [← hx, ih]; rfl

/-! ### interpolation -/

theorem quoteCount_append (a b : List Char) : quoteCount (a ++ b) = quoteCount a + quoteCount b := by
  simp [quoteCount, List.filter_append]

theorem interp_drop (par : Nat) (s : List Char) : ∀ (vals : List (List Char)) out rest,
    interp par s vals = some (out, rest) → rest = vals.drop (phCount par s) ∧ phCount par s ≤ vals.length := by
  induction s with
  | nil => intro vals out rest h; simp [interp] at h; simp [phCount, h.2]
  | cons c cs ih =>
    intro vals out rest h
    simp only [interp] at h
    split at h
    · rename_i hp
      cases vals with
      | nil => simp at h
      | cons v vs =>
        simp only [Option.map_eq_some_iff] at h
        obtain ⟨⟨o, r⟩, hr, he⟩ := h
        simp at he
        obtain ⟨_, rfl⟩ := he
        have := ih vs o r hr
        refine ⟨?_, ?_⟩
        · simp only [phCount, hp, if_true, this.1]
          rw [Nat.add_comm]; rfl
        · simp [phCount, hp]; omega
    · rename_i hp
      simp only [Option.map_eq_some_iff] at h
      obtain ⟨⟨o, r⟩, hr, he⟩ := h
      simp at he
      obtain ⟨_, rfl⟩ := he
      have := ih vals o r hr
      simp [phCount, hp, this.1, this.2]

theorem interp_isSome (par : Nat) (s : List Char) : ∀ (vals : List (List Char)),
    phCount par s ≤ vals.length → (interp par s vals).isSome := by
  induction s with
  | nil => intro vals _; simp [interp]
  | cons c cs ih =>
    intro vals h
    simp only [interp]
    split
    · rename_i hp
      simp only [phCount, hp, if_true] at h
      cases vals with
      | nil => simp at h
      | cons v vs =>
        have := ih vs (by simp at h; omega)
        simp [Option.isSome_map, this]
    · rename_i hp
      simp only [phCount, hp] at h
      have := ih vals (by simpa using h)
      simp [Option.isSome_map, this]

/-- a template without placeholders is not changed -/
theorem interp_none (par : Nat) (s : List Char) (vals : List (List Char)) (h : phCount par s = 0) :
    interp par s vals = some (s, vals) := by
  induction s with
  | nil => simp [interp]
  | cons c cs ih =>
    simp only [phCount] at h
    have hp : isPh par c cs = false := by
      cases hx : isPh par c cs <;> simp [hx] at h ⊢
    have hc : phCount par cs = 0 := by simp [hp] at h; exact h
    simp [interp, hp, ih hc]

/-- **splice / composition law**: interpolating `a ++ b` is interpolating `a` (knowing how many quote characters
    follow it) and then `b` with the values `a` did not use — values are never rescanned -/
theorem interp_append (par : Nat) (a b : List Char) : ∀ vals : List (List Char),
    interp par (a ++ b) vals =
      (interp (par + quoteCount b) a vals).bind (fun r => (interp par b r.2).map (fun r2 => (r.1 ++ r2.1, r2.2))) := by
  induction a with
  | nil =>
    intro vals
    simp only [List.nil_append, interp, Option.bind_some]
    cases interp par b vals <;> simp
  | cons c cs ih =>
    intro vals
    have hph : isPh par c (cs ++ b) = isPh (par + quoteCount b) c cs := by
      simp only [isPh, quoteCount_append]
      have : quoteCount cs + quoteCount b + par = quoteCount cs + (par + quoteCount b) := by omega
      rw [this]
    simp only [List.cons_append, interp, hph]
    split
    · cases vals with
      | nil => simp
      | cons v vs =>
        simp only [ih vs]
        cases interp (par + quoteCount b) cs vs with
        | none => simp
        | some r =>
          simp only [Option.bind_some, Option.map_some]
          cases interp par b r.2 <;> simp
    · simp only [ih vals]
      cases interp (par + quoteCount b) cs vals with
      | none => simp
      | some r =>
        simp only [Option.bind_some, Option.map_some]
        cases interp par b r.2 <;> simp

end Mimic.Params

namespace Mimic.Params
open Mimic.Wire

/-! ### templates whose quoted runs are simply quoted -/

/-- the property's template grammar: plain text (no quote character) and runs delimited by one quote character
    containing no quote character -/
inductive Seg
  | plain (s : List Char)
  | quoted (q : Char) (s : List Char)

def Seg.ok : Seg → Prop
  | .plain s => ∀ c ∈ s, isQuote c = false
  | .quoted q s => isQuote q = true ∧ ∀ c ∈ s, isQuote c = false

def Seg.render : Seg → List Char
  | .plain s => s
  | .quoted q s => q :: (s ++ [q])

def render (segs : List Seg) : List Char := (segs.map Seg.render).flatten

/-- replace every `?` of a string by the next value -/
def replaceQ : List Char → List (List Char) → Option (List Char × List (List Char))
  | [], vals => some ([], vals)
  | c :: cs, vals =>
    if c = '?' then
      match vals with
      | [] => none
      | v :: vs => (replaceQ cs vs).map (fun r => (v ++ r.1, r.2))
    else (replaceQ cs vals).map (fun r => (c :: r.1, r.2))

/-- the specification of interpolation on the property's template grammar: `?` outside quoted runs are replaced
    in order, quoted runs are copied -/
def fillSegs : List Seg → List (List Char) → Option (List Char × List (List Char))
  | [], vals => some ([], vals)
  | .plain s :: r, vals => (replaceQ s vals).bind (fun x => (fillSegs r x.2).map (fun y => (x.1 ++ y.1, y.2)))
  | .quoted q s :: r, vals => (fillSegs r vals).map (fun y => (q :: (s ++ [q]) ++ y.1, y.2))

theorem quoteCount_plain (s : List Char) (h : ∀ c ∈ s, isQuote c = false) : quoteCount s = 0 := by
  induction s with
  | nil => rfl
  | cons c cs ih =>
    have hc := h c (by simp)
    have := ih (fun x hx => h x (by simp [hx]))
    simp [quoteCount, hc] at this ⊢; exact this

theorem interp_plain (par : Nat) (hp : par % 2 = 0) (s : List Char) (h : ∀ c ∈ s, isQuote c = false) :
    ∀ vals, interp par s vals = replaceQ s vals := by
  induction s with
  | nil => intro vals; rfl
  | cons c cs ih =>
    intro vals
    have hcs : ∀ x ∈ cs, isQuote x = false := fun x hx => h x (by simp [hx])
    have hq : quoteCount cs = 0 := quoteCount_plain cs hcs
    have hph : isPh par c cs = decide (c = '?') := by simp [isPh, hq, hp]
    simp only [interp, replaceQ, hph, decide_eq_true_eq]
    split
    · cases vals with
      | nil => rfl
      | cons v vs => simp [ih hcs vs]
    · simp [ih hcs vals]

theorem phCount_quoted (par : Nat) (hp : par % 2 = 0) (q : Char) (s : List Char) (hq : isQuote q = true)
    (hs : ∀ c ∈ s, isQuote c = false) : phCount par (q :: (s ++ [q])) = 0 := by
  have hqm : q ≠ '?' := by intro c; subst c; simp [isQuote] at hq
  have h1 : isPh par q (s ++ [q]) = false := by simp [isPh, hqm]
  simp only [phCount, h1]
  -- inside the run: one closing quote follows, so the parity is odd
  have inner : ∀ t : List Char, (∀ c ∈ t, isQuote c = false) → phCount par (t ++ [q]) = 0 := by
    intro t ht
    induction t with
    | nil => simp [phCount, isPh, hqm]
    | cons c cs ih =>
      have hcs : ∀ x ∈ cs, isQuote x = false := fun x hx => ht x (by simp [hx])
      have hqc : quoteCount (cs ++ [q]) = 1 := by
        rw [quoteCount_append, quoteCount_plain cs hcs]; simp [quoteCount, hq]
      have : isPh par c (cs ++ [q]) = false := by
        simp only [isPh, hqc]
        have : (1 + par) % 2 ≠ 0 := by omega
        simp [this]
      simp [phCount, this, ih hcs]
  simp [inner s hs]

theorem quoteCount_render_even (segs : List Seg) (h : ∀ g ∈ segs, g.ok) : quoteCount (render segs) % 2 = 0 := by
  induction segs with
  | nil => rfl
  | cons g gs ih =>
    have hg := h g (by simp)
    have := ih (fun x hx => h x (by simp [hx]))
    simp only [render, List.map_cons, List.flatten_cons] at this ⊢
    rw [quoteCount_append]
    cases g with
    | plain s => simp only [Seg.render]; rw [quoteCount_plain s hg]; omega
    | quoted q s =>
      obtain ⟨hq, hs⟩ := hg
      have : quoteCount (q :: (s ++ [q])) = 2 := by
        have h2 : quoteCount (s ++ [q]) = 1 := by
          rw [quoteCount_append, quoteCount_plain s hs]; simp [quoteCount, hq]
        simp [quoteCount, hq] at h2 ⊢; omega
      simp only [Seg.render, this]; omega

/-- On the property's template grammar the single-pass regex substitution is exactly "replace the `?` outside
    quoted strings / identifiers, in order". -/
theorem interp_render (segs : List Seg) (h : ∀ g ∈ segs, g.ok) : ∀ vals,
    interp 0 (render segs) vals = fillSegs segs vals := by
  induction segs with
  | nil => intro vals; rfl
  | cons g gs ih =>
    intro vals
    have hg := h g (by simp)
    have hgs : ∀ x ∈ gs, x.ok := fun x hx => h x (by simp [hx])
    have hev := quoteCount_render_even gs hgs
    have hr : render (g :: gs) = g.render ++ render gs := by simp [render]
    rw [hr, interp_append]
    simp only [Nat.zero_add]
    cases g with
    | plain s =>
      simp only [Seg.render, fillSegs]
      rw [interp_plain _ hev s hg]
      cases replaceQ s vals with
      | none => rfl
      | some x => simp [ih hgs]
    | quoted q s =>
      obtain ⟨hq, hs⟩ := hg
      simp only [Seg.render, fillSegs]
      rw [interp_none _ _ _ (phCount_quoted _ hev q s hq hs)]
      simp [ih hgs]

end Mimic.Params

namespace Mimic.Params
open Mimic.Wire Mimic.Results

/-! ### parameter blocks: client encoding → `_read_params` -/

/-- one bound parameter as the client sends it: type, name, and either NULL or a value with its wire bytes -/
structure Item where
  t : PType
  v : PVal                 -- `.null` ⇒ flagged in the bitmap, no value bytes
  bytes : Bytes            -- wire bytes of the value (`[]` for NULL)

def Item.isNull (i : Item) : Bool := match i.v with | .null => true | _ => false

def encType (qa : Bool) (t : PType) : Bytes :=
  UInt8.ofNat t.code :: (if t.unsigned then (128 : UInt8) else 0) :: (if qa then encStr t.name else [])

def encBlock (qa : Bool) (items : List Item) : Bytes :=
  bitmap 0 (items.map Item.isNull) ++ [1] ++ (items.map (fun i => encType qa i.t)).flatten
    ++ (items.map (fun i => i.bytes)).flatten

/-- an item is well formed for a decoder when its bytes decode to its value whatever follows -/
def Item.ok (valid : List Nat) (dec : Bytes → Option (List Char)) (qa : Bool) (i : Item) : Prop :=
  i.t.code < 256 ∧ valid.contains i.t.code = true ∧ i.t.name.length < 2 ^ 63 ∧ (qa = false → i.t.name = []) ∧
  (i.isNull = true → i.bytes = []) ∧
  (i.isNull = false → ∀ rest, readValue dec i.t (i.bytes ++ rest) = some (i.v, rest))

theorem readTypes_enc (valid : List Nat) (qa : Bool) (items : List Item) (rest : Bytes)
    (h : ∀ i ∈ items, i.t.code < 256 ∧ valid.contains i.t.code = true ∧ i.t.name.length < 2 ^ 63 ∧ (qa = false → i.t.name = [])) :
    readTypes valid qa items.length ((items.map (fun i => encType qa i.t)).flatten ++ rest) =
      some (items.map (fun i => i.t), rest) := by
  induction items with
  | nil => simp [readTypes]
  | cons i is ih =>
    have ih' := ih (fun x hx => h x (by simp [hx]))
    have hi := h i (by simp)
    obtain ⟨⟨c, u, n⟩, v, b⟩ := i
    simp only at hi
    obtain ⟨hc, hv, hn, hq⟩ := hi
    have hcode : (UInt8.ofNat c).toNat = c := by rw [UInt8.toNat_ofNat']; omega
    simp only [List.length_cons, List.map_cons, List.flatten_cons, encType, List.cons_append, readTypes, hcode, hv, if_true]
    cases qa with
    | true =>
      simp only [if_true, List.append_assoc]
      rw [(decStr_encStr n hn _).1]
      simp only [encType, if_true] at ih'
      simp only [ih', Option.map_some]
      cases u <;> simp
    | false =>
      have hn0 : n = [] := hq rfl
      subst hn0
      simp only [encType, Bool.false_eq_true, if_false] at ih'
      simp only [Bool.false_eq_true, if_false, List.nil_append, ih', Option.map_some]
      cases u <;> simp

theorem readValues_enc (dec : Bytes → Option (List Char)) (items : List Item) (rest : Bytes) (k : Nat)
    (h : ∀ i ∈ items, (i.isNull = true → i.bytes = []) ∧
        (i.isNull = false → ∀ r, readValue dec i.t (i.bytes ++ r) = some (i.v, r))) :
    readValues dec (fun _ => none) (items.map (fun i => i.t)) (items.map Item.isNull) k
        ((items.map (fun i => i.bytes)).flatten ++ rest) = some (items.map (fun i => i.v), rest) := by
  induction items generalizing k with
  | nil => simp [readValues]
  | cons i is ih =>
    obtain ⟨hnull, hval⟩ := h i (by simp)
    have ih' := ih (k + 1) (fun x hx => h x (by simp [hx]))
    simp only [List.map_cons, List.flatten_cons, readValues, List.headD_cons, List.tail_cons]
    cases hn : i.isNull with
    | true =>
      have hb := hnull hn
      have hv : i.v = .null := by
        cases i with | mk t v b => cases v <;> simp [Item.isNull] at hn ⊢
      simp [hb, ih', hv]
    | false =>
      simp only [Bool.false_eq_true, if_false, List.append_assoc]
      rw [hval hn]
      simp [ih']

/-- **Parameter blocks round-trip**: for every list of parameters / attributes (any count, hence every bitmap
    size), NULL pattern, names (when query attributes are negotiated) and values whose own encoding decodes,
    `_read_params` returns exactly the (name, value) pairs the client sent and stops exactly behind the block. -/
theorem readParams_enc (valid : List Nat) (dec : Bytes → Option (List Char)) (qa : Bool) (items : List Item)
    (names : List (List Char)) (rest : Bytes) (hne : items ≠ [])
    (hok : ∀ i ∈ items, i.ok valid dec qa)
    (hnames : optAll (items.map (fun i => dec i.t.name)) = some names) :
    readParams valid dec qa items.length (fun _ => none) (encBlock qa items ++ rest) =
      some (names.zip (items.map (fun i => i.v)), rest) := by
  have hlen : items.length ≠ 0 := by
    intro c; exact hne (List.length_eq_zero_iff.mp c)
  unfold readParams encBlock
  simp only [hlen, if_false, List.append_assoc]
  have hbl : (bitmap 0 (items.map Item.isNull)).length = (items.length + 7) / 8 := by simp
  rw [takeN_append _ _ _ hbl]
  simp only [List.cons_append, List.nil_append]
  have h1 : ((1 : UInt8) = 0) = False := by decide
  simp only [h1, if_false]
  rw [readTypes_enc valid qa items _ (fun i hi => ⟨(hok i hi).1, (hok i hi).2.1, (hok i hi).2.2.1, (hok i hi).2.2.2.1⟩)]
  simp only [List.map_map, Function.comp_def, hnames]
  have hflags : (List.range items.length).map (isFlipped 0 (bitmap 0 (items.map Item.isNull))) = items.map Item.isNull := by
    have : (List.range items.length).map (isFlipped 0 (bitmap 0 (items.map Item.isNull))) =
           (List.range (items.map Item.isNull).length).map (fun i => (items.map Item.isNull).getD i false) := by
      simp only [List.length_map]
      apply List.map_congr_left
      intro i hi
      simp at hi
      exact isFlipped_bitmap 0 (items.map Item.isNull) i (by simpa using hi)
    rw [this, range_map_getD]
  rw [hflags]
  have := readValues_enc dec items rest 0 (fun i hi => ⟨(hok i hi).2.2.2.2.1, (hok i hi).2.2.2.2.2⟩)
  rw [this]

/-! per-kind value lemmas (what makes `Item.ok` satisfiable) -/

theorem readValue_str (dec : Bytes → Option (List Char)) (t : PType) (raw : Bytes) (s : List Char) (rest : Bytes)
    (ht : strCodes.contains t.code = true) (hd : dec raw = some s) (hl : raw.length < 2 ^ 63) :
    readValue dec t (encStr raw ++ rest) = some (.str s, rest) := by
  unfold readValue
  rw [if_pos ht, (decStr_encStr raw hl rest).1]
  simp [hd]

theorem readValue_signed (dec : Bytes → Option (List Char)) (code k : Nat) (nm : Bytes) (z : Int) (rest : Bytes)
    (hk : (code, k) ∈ [(1, 1), (2, 2), (13, 2), (3, 4), (9, 4), (8, 8)]) (hz : inSigned k z) :
    readValue dec { code := code, unsigned := false, name := nm } (leN k (ofSigned k z) ++ rest) = some (.int z, rest) := by
  have hk0 : 0 < k := by simp at hk; omega
  have := readSInt_roundtrip k hk0 z hz rest
  simp at hk
  rcases hk with ⟨rfl, rfl⟩ | ⟨rfl, rfl⟩ | ⟨rfl, rfl⟩ | ⟨rfl, rfl⟩ | ⟨rfl, rfl⟩ | ⟨rfl, rfl⟩ <;>
    simp [readValue, strCodes, readInt, this]

theorem readValue_unsigned (dec : Bytes → Option (List Char)) (code k : Nat) (nm : Bytes) (n : Nat) (rest : Bytes)
    (hk : (code, k) ∈ [(1, 1), (2, 2), (13, 2), (3, 4), (9, 4), (8, 8)]) (hn : n < 256 ^ k) :
    readValue dec { code := code, unsigned := true, name := nm } (leN k n ++ rest) = some (.int n, rest) := by
  have := readUInt_leN k n hn rest
  simp at hk
  rcases hk with ⟨rfl, rfl⟩ | ⟨rfl, rfl⟩ | ⟨rfl, rfl⟩ | ⟨rfl, rfl⟩ | ⟨rfl, rfl⟩ | ⟨rfl, rfl⟩ <;>
    simp [readValue, strCodes, readInt, this]

end Mimic.Params
