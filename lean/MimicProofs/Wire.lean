import Mimic.Wire
namespace Mimic.Wire

@[simp] theorem leN_length (k n : Nat) : (leN k n).length = k := by
  induction k generalizing n with
  | zero => rfl
  | succ k ih => simp [leN, ih]

theorem leVal_leN (k : Nat) : ∀ n, n < 256 ^ k → leVal (leN k n) = n := by
  induction k with
  | zero => intro n h; simp at h; simp [leN, leVal, h]
  | succ k ih =>
    intro n h
    simp only [leN, leVal, UInt8.toNat_ofNat']
    have : n / 256 < 256 ^ k := by
      rw [Nat.div_lt_iff_lt_mul (by decide)]; rw [Nat.pow_succ] at h; exact h
    rw [ih _ this]; omega

theorem takeN_append (k : Nat) (x rest : Bytes) (h : x.length = k) : takeN k (x ++ rest) = some (x, rest) := by
  unfold takeN
  have : k ≤ (x ++ rest).length := by simp; omega
  simp [this, ← h]

theorem readUInt_leN (k n : Nat) (h : n < 256 ^ k) (rest : Bytes) :
    readUInt k (leN k n ++ rest) = some (n, rest) := by
  unfold readUInt
  rw [takeN_append k _ _ (leN_length k n)]
  simp [leVal_leN k n h]

theorem toSigned_ofSigned (k : Nat) (hk : 0 < k) (z : Int) (h : inSigned k z) : toSigned k (ofSigned k z) = z := by
  unfold toSigned ofSigned inSigned at *
  have e : 2 ^ (8 * k) = 2 * 2 ^ (8 * k - 1) := by
    rw [← Nat.pow_succ']; congr 1; omega
  generalize hp : 2 ^ (8 * k - 1) = p at *
  have hp0 : 0 < p := by rw [← hp]; exact Nat.two_pow_pos _
  rw [e]
  obtain ⟨h1, h2⟩ := h
  by_cases hz : 0 ≤ z
  · have : z % ((2 * p : Nat) : Int) = z := Int.emod_eq_of_lt hz (by omega)
    rw [this]
    have : z.toNat < p := by omega
    simp [this]; omega
  · have hz' : z < 0 := by omega
    have : z % ((2 * p : Nat) : Int) = z + (2 * p : Nat) := by
      rw [← Int.add_emod_right]; exact Int.emod_eq_of_lt (by omega) (by omega)
    rw [this]
    have : ¬ (z + ((2 * p : Nat) : Int)).toNat < p := by omega
    simp only [this, if_false]; omega

theorem ofSigned_lt (k : Nat) (z : Int) : ofSigned k z < 256 ^ k := by
  unfold ofSigned
  have : (256 : Nat) ^ k = 2 ^ (8 * k) := by rw [Nat.pow_mul]
  rw [this]
  have hpos : (0 : Int) < ((2 ^ (8 * k) : Nat) : Int) := by
    have := Nat.two_pow_pos (8 * k); omega
  have := Int.emod_lt_of_pos z hpos
  have h0 := Int.emod_nonneg z (Int.ne_of_gt hpos)
  omega

theorem readSInt_roundtrip (k : Nat) (hk : 0 < k) (z : Int) (h : inSigned k z) (rest : Bytes) :
    readSInt k (leN k (ofSigned k z) ++ rest) = some (z, rest) := by
  unfold readSInt
  rw [readUInt_leN k _ (ofSigned_lt k z)]
  simp [toSigned_ofSigned k hk z h]

theorem decLen_encLen (n : Nat) (h : n < 2 ^ 64) (rest : Bytes) : decLen (encLen n ++ rest) = some (n, rest) := by
  unfold encLen
  split
  · rename_i h1
    simp only [List.cons_append, List.nil_append, decLen]
    have e : (UInt8.ofNat n).toNat = n := by rw [UInt8.toNat_ofNat']; omega
    have h2 : UInt8.ofNat n ≠ 0xFE := by intro c; have := congrArg UInt8.toNat c; rw [e] at this; simp at this; omega
    have h3 : UInt8.ofNat n ≠ 0xFD := by intro c; have := congrArg UInt8.toNat c; rw [e] at this; simp at this; omega
    have h4 : UInt8.ofNat n ≠ 0xFC := by intro c; have := congrArg UInt8.toNat c; rw [e] at this; simp at this; omega
    simp [h2, h3, h4, e]
  · split
    · rename_i h1 h2
      simp only [List.cons_append, decLen]
      have : (0xFC : UInt8) ≠ 0xFE := by decide
      have : (0xFC : UInt8) ≠ 0xFD := by decide
      simp
      exact readUInt_leN 2 n (by simpa using h2) rest
    · split
      · rename_i h1 h2 h3
        simp only [List.cons_append, decLen]
        simp
        exact readUInt_leN 3 n (by simpa using h3) rest
      · simp only [List.cons_append, decLen]
        simp
        exact readUInt_leN 8 n (by simpa using h) rest

theorem decStr_encStr (s : Bytes) (h : s.length < 2 ^ 63) (rest : Bytes) :
    decStr (encStr s ++ rest) = some (s, rest) ∧ decStrStrict (encStr s ++ rest) = some (s, rest) := by
  unfold decStr decStrStrict encStr
  rw [List.append_assoc, decLen_encLen _ (by omega)]
  simp [h]

/-- `read_str_null` stops at the first NUL: a NUL-free string followed by NUL is read back -/
theorem readNul_roundtrip (s rest : Bytes) (h : ∀ b ∈ s, b ≠ 0) : readNul (s ++ 0 :: rest) = (s, rest) := by
  induction s with
  | nil => simp [readNul]
  | cons b bs ih =>
    have hb : b ≠ 0 := h b (by simp)
    have := ih (fun x hx => h x (by simp [hx]))
    simp [readNul, hb, this]

/-- it never reads more than is there and always terminates (total function): consumed + rest ≤ input -/
theorem readNul_length (b : Bytes) : (readNul b).1.length + (readNul b).2.length ≤ b.length := by
  induction b with
  | nil => simp [readNul]
  | cons x xs ih => simp only [readNul]; split <;> simp <;> omega

end Mimic.Wire
