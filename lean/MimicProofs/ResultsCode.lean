import Mimic.Results
import Mimic.Extracted.ResultsCode
import MimicProofs.Types
/-!
The translated temporal encoders of `results.py` (`Mimic.Extracted.ResultsCode`) are the hand-written model functions
of `Mimic.Results` — for every field value.
-/
namespace MimicProofs.ResultsCode
open Mimic.Extracted.ResultsCode Mimic.Extracted.Types MimicProofs.Types

theorem u1 (x : Nat) : uint_1 x = [UInt8.ofNat x] := by
  rw [uint_1_eq]; simp [Mimic.Wire.leN, ofNat_mod]

/-- **`_binary_encode_date` on a datetime is the model's `binDate`**, for all field values -/
theorem binary_encode_datetime_eq (y mo d h mi s us : Nat) :
    binary_encode_datetime y mo d h mi s us = Mimic.Results.binDate y mo d h mi s us := by
  unfold binary_encode_datetime Mimic.Results.binDate
  simp only [u1, uint_2_eq, uint_4_eq]
  by_cases h0 : us = 0
  · simp only [h0, if_true]
    by_cases h1 : h = 0 ∧ mi = 0 ∧ s = 0
    · obtain ⟨a, b, c⟩ := h1
      subst a b c
      simp only [and_self, if_true]
      by_cases h2 : y = 0 ∧ mo = 0 ∧ d = 0
      · obtain ⟨a, b, c⟩ := h2; subst a b c; simp
      · have : ¬ (y = mo ∧ mo = d ∧ d = 0) := by intro ⟨a, b, c⟩; apply h2; omega
        simp [this, h2]
    · have : ¬ (h = mi ∧ mi = s ∧ s = 0) := by intro ⟨a, b, c⟩; apply h1; omega
      simp [this, h1]
  · simp [h0]

theorem binary_encode_date_eq (y mo d : Nat) : binary_encode_date y mo d = Mimic.Results.binDate y mo d 0 0 0 0 := by
  unfold binary_encode_date Mimic.Results.binDate
  simp only [u1, uint_2_eq]
  by_cases h2 : y = 0 ∧ mo = 0 ∧ d = 0
  · obtain ⟨a, b, c⟩ := h2; subst a b c; simp
  · have : ¬ (y = mo ∧ mo = d ∧ d = 0) := by intro ⟨a, b, c⟩; apply h2; omega
    simp [this, h2]

/-- **`_binary_encode_timedelta` is the model's `binDur`**: with the fields Python's `timedelta` exposes for
    `abs(val)` (days, seconds < 86400, microseconds < 10^6) and the sign -/
theorem binary_encode_timedelta_eq (us : Int) :
    binary_encode_timedelta (if us < 0 then 1 else 0) (us.natAbs / 1000000 / 86400) (us.natAbs / 1000000 % 86400) (us.natAbs % 1000000)
      = Mimic.Results.binDur us := by
  unfold binary_encode_timedelta Mimic.Results.binDur Mimic.Results.durFields
  simp only [u1, uint_4_eq]
  generalize us.natAbs / 1000000 = secs
  generalize us.natAbs % 1000000 = frac
  have e1 : secs % 86400 / 3600 = secs % 86400 / 3600 := rfl
  have e2 : secs % 86400 % 3600 / 60 = secs % 3600 / 60 := by omega
  have e3 : secs % 86400 % 3600 % 60 = secs % 60 := by omega
  simp only [e2, e3]
  by_cases h0 : frac = 0
  · simp only [h0, if_true]
    by_cases h1 : secs / 86400 = 0 ∧ secs % 86400 / 3600 = 0 ∧ secs % 3600 / 60 = 0 ∧ secs % 60 = 0
    · obtain ⟨a, b, c, d⟩ := h1
      simp [a, b, c, d]
    · have : ¬ (secs / 86400 = secs % 86400 / 3600 ∧ secs % 86400 / 3600 = secs % 3600 / 60 ∧ secs % 3600 / 60 = secs % 60 ∧ secs % 60 = 0) := by
        intro ⟨a, b, c, d⟩; apply h1; omega
      simp only [this, if_false]
      have h1' : ¬ (secs / 86400 = 0 ∧ secs % 86400 / 3600 = 0 ∧ secs % 3600 / 60 = 0 ∧ secs % 60 = 0) := h1
      rw [if_neg h1']
      simp
  · simp [h0]

end MimicProofs.ResultsCode
