import Mimic.Framing
import Mimic.Extracted.StreamCode
import MimicProofs.Framing
import MimicProofs.Types
/-!
`MysqlStream.write` / `drain` / `reset_seq` of `stream.py` (and `seq` of `utils.py`) as translated by
`harness/pytrans2.py` (`Mimic.Extracted.StreamCode`, regenerated from the source on every run) refine the write side of
the hand-written model `Mimic.Framing` (`wwrite`, `flush`): the abstraction maps the object to the model's writer state
(bytes not yet handed to the transport, sequence counter, the `transport.write` calls so far).  `await` is transparent
and `StreamWriter.drain()` is a no-op in the translation (flow control: assumption A4 of DESIGN.md).
-/
set_option linter.unusedSimpArgs false
set_option linter.unusedVariables false
namespace MimicProofs.StreamCode
open Mimic.Py Mimic.Extracted.StreamCode
open Mimic.Framing (WSt flush putPkt wwrite split encPkt enc3 split_lt split_ge)

abbrev MS := MysqlStream Unit

def absW (s : MS) : WSt := { pending := s._buffer, seq := s.seq.value, sent := s.writer.log }

def WF (s : MS) : Prop := s.seq.size = some 256

theorem seq_next_eq (q : seq Unit) (n : Nat) (h : q.size = some n) :
    seq_next q = (q.value, { q with value := (q.value + 1) % n }) := by
  unfold seq_next
  simp only [h]
  by_cases hn : n = 0
  · subst hn; simp
  · have : (n != 0) = true := by simpa using hn
    simp [this]

/-- `MysqlStream.drain` is the model's `flush` -/
theorem drain_flush (s : MS) : absW (ms_drain s) = flush (absW s) ∧ (ms_drain s).seq = s.seq ∧ (ms_drain s)._buffer_size = s._buffer_size := by
  unfold ms_drain flush absW
  cases h : s._buffer with
  | nil => simp [h]
  | cons b bs => simp [h]

theorem leN3_enc3 (n : Nat) : Mimic.Wire.leN 3 n = enc3 n := by
  simp only [Mimic.Wire.leN, enc3]
  have h1 : UInt8.ofNat (n / 256 % 256) = UInt8.ofNat (n / 256 % 256) := rfl
  have h2 : UInt8.ofNat (n / 256 / 256 % 256) = UInt8.ofNat (n / 65536 % 256) := by
    apply MimicProofs.Types.ofNat_congr; omega
  rw [h2]

/-- the packet the loop appends is the model's `encPkt` -/
theorem packet_eq (v : Nat) (payload : Bytes) :
    (Mimic.Extracted.Types.uint_3 payload.length ++ Mimic.Extracted.Types.uint_1 v) ++ payload = encPkt v payload := by
  rw [MimicProofs.Types.uint_3_eq, MimicProofs.Types.uint_1_eq, leN3_enc3]
  simp [encPkt, Mimic.Wire.leN, MimicProofs.Types.ofNat_mod]

theorem encPkt_mod (v : Nat) (c : Bytes) : encPkt (v % 256) c = encPkt v c := by simp [encPkt]

theorem flush_seq (st : WSt) (x : Nat) : flush { st with seq := x } = { flush st with seq := x } := by
  unfold flush; split <;> rfl

theorem putPkt_seq (B : Nat) (d : Bool) (st : WSt) (x : Nat) (qc : Nat × Bytes) :
    putPkt B d { st with seq := x } qc = { putPkt B d st qc with seq := x } := by
  unfold putPkt
  simp only
  split
  · exact flush_seq { st with pending := st.pending ++ encPkt qc.1 qc.2 } x
  · rfl

theorem foldl_putPkt_seq (B : Nat) (d : Bool) (x : Nat) (pk : List (Nat × Bytes)) : ∀ st : WSt,
    pk.foldl (putPkt B d) { st with seq := x } = { pk.foldl (putPkt B d) st with seq := x } := by
  induction pk with
  | nil => intro st; rfl
  | cons q qs ih => intro st; simp only [List.foldl_cons, putPkt_seq]; exact ih _

/-- sequence ids only matter modulo 256 -/
theorem split_mod (m : Nat) (n : Nat) : ∀ (s : Nat) (p : Bytes), p.length = n → split m (s % 256) p = split m s p := by
  induction n using Nat.strongRecOn with
  | _ n ih =>
    intro s p hp
    by_cases h : 0 < m ∧ m ≤ p.length
    · rw [split_ge h, split_ge h]
      have hl : (p.drop m).length < n := by simp; omega
      have e1 := ih (p.drop m).length hl (s % 256 + 1) (p.drop m) rfl
      have e2 := ih (p.drop m).length hl (s + 1) (p.drop m) rfl
      have : (s % 256 + 1) % 256 = (s + 1) % 256 := by omega
      rw [← e1, ← e2, this]
      simp
    · rw [split_lt h, split_lt h]; simp

abbrev MC : Nat := 16777215

theorem loopM_ret {σ α : Type} (n : Nat) (s : σ) (f : σ → Option (Step σ α)) (a : α) (h : f s = some (Step.ret a)) :
    Mimic.Py.loopM (n + 1) s f = some (some (Step.ret a)) := by simp [Mimic.Py.loopM, h]

theorem loopM_next {σ α : Type} (n : Nat) (s s' : σ) (f : σ → Option (Step σ α)) (h : f s = some (Step.next s')) :
    Mimic.Py.loopM (n + 1) s f = Mimic.Py.loopM n s' f := by simp [Mimic.Py.loopM, h]

/-- the object after one round of the loop: packet appended, sequence advanced, flushed if asked to or if the buffer
    reached its size -/
def round (d : Bool) (s : MS) (data : Bytes) : MS :=
  if (d || decide ((s._buffer ++ encPkt s.seq.value (data.take MC)).length ≥ s._buffer_size)) = true then
    ms_drain { s with seq := { s.seq with value := (s.seq.value + 1) % 256 }, _buffer := s._buffer ++ encPkt s.seq.value (data.take MC) }
  else { s with seq := { s.seq with value := (s.seq.value + 1) % 256 }, _buffer := s._buffer ++ encPkt s.seq.value (data.take MC) }

theorem loop1_next (d : Bool) (s : MS) (hw : WF s) (data : Bytes) (hlen : MC ≤ data.length) :
    MysqlStream_write_loop1 d (data, s) = some (Step.next (data.drop MC, round d s data)) := by
  simp only [MysqlStream_write_loop1]
  rw [seq_next_eq _ 256 (by simpa [WF] using hw)]
  simp only [packet_eq, round]
  have hmin : ((List.take 16777215 data).length != 16777215) = false := by
    have : (List.take 16777215 data).length = 16777215 := by rw [List.length_take]; have : (16777215 : Nat) ≤ data.length := hlen; omega
    simp [this]
  by_cases hc : (d || decide ((s._buffer ++ encPkt s.seq.value (List.take 16777215 data)).length ≥ s._buffer_size)) = true
  · rw [if_pos hc, if_pos hc]; simp only [hmin]; rfl
  · rw [if_neg hc, if_neg hc]; simp only [hmin]; rfl

theorem loop1_ret (d : Bool) (s : MS) (hw : WF s) (data : Bytes) (hlen : ¬ MC ≤ data.length) :
    MysqlStream_write_loop1 d (data, s) = some (Step.ret (round d s data)) := by
  simp only [MysqlStream_write_loop1]
  rw [seq_next_eq _ 256 (by simpa [WF] using hw)]
  simp only [packet_eq, round]
  have hmin : ((List.take 16777215 data).length != 16777215) = true := by
    have : (List.take 16777215 data).length ≠ 16777215 := by rw [List.length_take]; have : ¬ (16777215 : Nat) ≤ data.length := hlen; omega
    simpa using this
  by_cases hc : (d || decide ((s._buffer ++ encPkt s.seq.value (List.take 16777215 data)).length ≥ s._buffer_size)) = true
  · rw [if_pos hc, if_pos hc]; simp only [hmin]; rfl
  · rw [if_neg hc, if_neg hc]; simp only [hmin]; rfl

theorem round_abs (d : Bool) (s : MS) (hw : WF s) (data : Bytes) :
    absW (round d s data) = { putPkt s._buffer_size d (absW s) (s.seq.value % 256, data.take MC) with seq := (s.seq.value + 1) % 256 } ∧
      WF (round d s data) ∧ (round d s data)._buffer_size = s._buffer_size := by
  unfold round putPkt
  simp only [encPkt_mod]
  by_cases hc : (d || decide ((s._buffer ++ encPkt s.seq.value (data.take MC)).length ≥ s._buffer_size)) = true
  · have hc' : (d || decide (s._buffer_size ≤ ((absW s).pending ++ encPkt s.seq.value (List.take MC data)).length)) = true := hc
    simp only [hc, hc', if_true]
    have hd := drain_flush ({ s with seq := { s.seq with value := (s.seq.value + 1) % 256 }, _buffer := s._buffer ++ encPkt s.seq.value (data.take MC) } : MS)
    refine ⟨?_, ?_, hd.2.2⟩
    · rw [hd.1]
      have := flush_seq { (absW s) with pending := (absW s).pending ++ encPkt s.seq.value (data.take MC) } ((s.seq.value + 1) % 256)
      simpa [absW] using this
    · simp only [WF] at hw ⊢; rw [hd.2.1]; exact hw
  · have hc' : ¬ (d || decide (s._buffer_size ≤ ((absW s).pending ++ encPkt s.seq.value (List.take MC data)).length)) = true := hc
    simp only [hc, hc', if_false]
    exact ⟨rfl, hw, rfl⟩

/-- **`MysqlStream.write` (the `while True` loop with slicing, sequence counter, buffer threshold and flush) computes the
    model's `wwrite`** and terminates for every payload: the fuel needed is one more than the payload length -/
theorem write_loop (d : Bool) (n : Nat) :
    ∀ (data : Bytes), data.length = n → ∀ (s : MS) (fuel : Nat), WF s → n < fuel →
      ∃ s' : MS, Mimic.Py.loopM fuel (data, s) (MysqlStream_write_loop1 d) = some (some (Step.ret s')) ∧
        absW s' = { (split MC s.seq.value data).foldl (putPkt s._buffer_size d) (absW s) with
                    seq := (s.seq.value + (split MC s.seq.value data).length) % 256 } ∧
        WF s' ∧ s'._buffer_size = s._buffer_size := by
  induction n using Nat.strongRecOn with
  | _ n ih =>
    intro data hn s fuel hw hf
    cases fuel with
    | zero => omega
    | succ fuel =>
      have hr := round_abs d s hw data
      by_cases hlen : MC ≤ data.length
      · -- a full packet: the loop goes round again with the rest
        have h1 := loop1_next d s hw data hlen
        rw [loopM_next fuel _ _ _ h1]
        have hdl : (data.drop MC).length < n := by
          have h1 : (16777215 : Nat) ≤ data.length := hlen
          rw [List.length_drop]; show data.length - 16777215 < n; omega
        obtain ⟨s', hs', ha', hw', hb'⟩ := ih (data.drop MC).length hdl (data.drop MC) rfl (round d s data) fuel hr.2.1 (by omega)
        refine ⟨s', hs', ?_, hw', by rw [hb', hr.2.2]⟩
        rw [ha', hr.2.2]
        have hsp : split MC s.seq.value data = (s.seq.value % 256, data.take MC) :: split MC (s.seq.value + 1) (data.drop MC) :=
          split_ge ⟨by decide, hlen⟩
        have hv : (round d s data).seq.value = (s.seq.value + 1) % 256 := by
          have := congrArg WSt.seq hr.1; simpa [absW] using this
        rw [hsp, hv, split_mod MC _ (s.seq.value + 1) (data.drop MC) rfl, hr.1]
        simp only [List.foldl_cons, List.length_cons, foldl_putPkt_seq]
        congr 1
        omega
      · -- the last (short, possibly empty) packet
        have h1 := loop1_ret d s hw data hlen
        rw [loopM_ret fuel _ _ _ h1]
        refine ⟨round d s data, rfl, ?_, hr.2.1, hr.2.2⟩
        have hsp : split MC s.seq.value data = [(s.seq.value % 256, data)] := split_lt (by simp; omega)
        have ht : data.take MC = data := List.take_of_length_le (by omega)
        rw [hsp, hr.1, ht]
        simp

/-- **`MysqlStream.write`, translated, refines the model's `wwrite`** for every payload, drain flag, buffer size and
    starting state; any fuel above the payload length is enough for the `while True` loop -/
theorem write_refines (s : MS) (hw : WF s) (data : Bytes) (d : Bool) (fuel : Nat) (hf : data.length < fuel) :
    ∃ s' : MS, ms_write fuel s data d = some s' ∧ absW s' = wwrite MC s._buffer_size (absW s) data d ∧
      WF s' ∧ s'._buffer_size = s._buffer_size := by
  obtain ⟨s', hl, ha, hw', hb⟩ := write_loop d data.length data rfl s fuel hw hf
  refine ⟨s', ?_, ?_, hw', hb⟩
  · unfold ms_write; rw [hl]
  · rw [ha]; rfl

theorem reset_seq_abs (s : MS) : absW (reset_seq s) = { absW s with seq := 0 } ∧ (WF s → WF (reset_seq s)) := by
  unfold reset_seq seq_reset absW WF
  exact ⟨rfl, fun h => h⟩

end MimicProofs.StreamCode
