import Mimic.Packets
import MimicProofs.Wire
namespace Mimic.Packets
open Mimic.Wire

theorem readUInt_shorter (k : Nat) (b : Bytes) (n : Nat) (r : Bytes) (h : readUInt k b = some (n, r)) :
    r.length + k = b.length := by
  unfold readUInt takeN at h
  split at h
  · rename_i x r' hx
    split at hx
    · simp at hx h; obtain ⟨_, rfl⟩ := hx; obtain ⟨_, rfl⟩ := h; simp; omega
    · simp at hx
  · simp at h

theorem decLen_shorter (b : Bytes) (n : Nat) (r : Bytes) (h : decLen b = some (n, r)) : r.length < b.length := by
  cases b with
  | nil => simp [decLen] at h
  | cons x xs =>
    simp only [decLen] at h
    split at h
    · have := readUInt_shorter 8 xs n r h; simp; omega
    · split at h
      · have := readUInt_shorter 3 xs n r h; simp; omega
      · split at h
        · have := readUInt_shorter 2 xs n r h; simp; omega
        · simp at h; obtain ⟨_, rfl⟩ := h; simp

theorem decStr_shorter (b : Bytes) (s r : Bytes) (h : decStr b = some (s, r)) : r.length < b.length := by
  unfold decStr at h
  split at h
  · rename_i n r' hd
    have := decLen_shorter b n r' hd
    split at h
    · simp at h; obtain ⟨_, rfl⟩ := h
      simp; omega
    · simp at h
  · simp at h

/-- **The connect-attribute loop needs no more iterations than there are input bytes** (each iteration consumes at
    least two): with any fuel above the input length the result is the same, i.e. the Python `while total_l > 0`
    loop terminates after at most `len/2` iterations whatever `total_l` claims (2^64-1 included). -/
theorem readConnectAttrs_fuel (dec : Bytes → Option Bytes) (n : Nat) :
    ∀ (b : Bytes) (f1 f2 : Nat) (total : Int), b.length = n → b.length < f1 → b.length < f2 →
      readConnectAttrs dec f1 total b = readConnectAttrs dec f2 total b := by
  induction n using Nat.strongRecOn with
  | _ n ih =>
    intro b f1 f2 total hn h1 h2
    cases f1 with
    | zero => omega
    | succ f1 =>
      cases f2 with
      | zero => omega
      | succ f2 =>
        simp only [readConnectAttrs]
        split
        · cases hk : decStr b with
          | none => rfl
          | some kb =>
            obtain ⟨k, b1⟩ := kb
            simp only
            cases hv : decStr b1 with
            | none => rfl
            | some vb =>
              obtain ⟨v, b2⟩ := vb
              simp only
              have l1 := decStr_shorter b k b1 hk
              have l2 := decStr_shorter b1 v b2 hv
              cases dec k <;> cases dec v <;> simp only
              rw [ih b2.length (by omega) b2 f1 f2 _ rfl (by omega) (by omega)]
        · rfl

end Mimic.Packets
