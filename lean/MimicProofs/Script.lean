import Mimic.Script
import MimicProofs.Conn
/-! Script lemmas: the response each handler script produces is accepted by a strict client (C03). -/
namespace Mimic.Script
open Mimic.Conn

/-- the response of a script that nothing interrupts: its emissions, closed by one ERR if it raises by itself -/
def resp : List Op → List PK
  | [] => []
  | .emit p :: r => p :: resp r
  | .raise_ .mysqlError :: _ => [.err .mysql]
  | .raise_ .authFailed :: _ => []
  | .raise_ _ :: _ => [.err .generic]
  | .callRet _ true :: _ => [.err .generic]
  | .call _ _ true :: _ => [.err .generic]
  | .quit :: _ => []
  | _ :: r => resp r

/-! ### the client's grammar (specification side) -/

def takeColDefs : Nat → List PK → Option (List PK)
  | 0, l => some l
  | n + 1, .colDef :: l => takeColDefs n l
  | _ + 1, _ => none

/-- `Row* (terminator | ERR)` -/
def acceptRows : List PK → Bool
  | [.term _] => true
  | [.err _] => true
  | .row _ :: r => acceptRows r
  | _ => false

/-- OK | ERR | ColCount(n) ColDef^n [EOF unless DEPRECATE_EOF] Row* (terminator | ERR) -/
def acceptResult (dep : Bool) : List PK → Bool
  | [.ok] => true
  | [.err _] => true
  | .colCount n :: r =>
    0 < n && (match takeColDefs n r with
      | some r' => if dep then acceptRows r' else (match r' with | .eofMeta :: r'' => acceptRows r'' | _ => false)
      | none => false)
  | _ => false

/-- ColCount(n) ColDef^n terminator(CURSOR_EXISTS) — the answer to a cursor-opening execute -/
def acceptCursorOpen : List PK → Bool
  | .colCount n :: r => 0 < n && (match takeColDefs n r with | some [.term 0x40] => true | _ => false)
  | _ => false

/-- StmtOK(p) (ColDef^p [EOF unless DEPRECATE_EOF])? -/
def acceptPrepare (dep : Bool) : List PK → Bool
  | .prepOk np :: r =>
    (match takeColDefs np r with
     | some [] => np = 0 || dep
     | some [.eofMeta] => 0 < np && !dep
     | _ => false)
  | [.err _] => true
  | _ => false

/-- ColDef* terminator -/
def acceptFieldList : List PK → Bool
  | [.term _] => true
  | [.err _] => true
  | .colDef :: r => acceptFieldList r
  | _ => false

def acceptSimple : List PK → Bool
  | [.ok] => true
  | [.err _] => true
  | _ => false

/-- what a strict client accepts as THE response to a command -/
def accepts (dep : Bool) : Cmd → List PK → Bool
  | .query _, l => acceptResult dep l
  | .ping, l => acceptSimple l
  | .initDb _, l => acceptSimple l
  | .quit, l => l.isEmpty
  | .prepare _, l => acceptPrepare dep l
  | .execute _ cursor p, l => acceptResult dep l || (cursor && acceptCursorOpen l)
  | .fetch _ _ _ _, l => acceptRows l
  | .stmtReset _, l => acceptSimple l
  | .stmtClose, l => l.isEmpty
  | .longData, l => l.isEmpty
  | .fieldList _, l => acceptFieldList l
  | .changeUser _, l => acceptSimple l
  | .changeUserRaised, l => acceptSimple l
  | .unknown, l => acceptSimple l
  | .malformed, l => acceptSimple l

/-! ### lemmas -/

theorem resp_append_noraise (a b : List Op) (h : ∀ op ∈ a, match op with
    | .raise_ _ => False | .callRet _ true => False | .call _ _ true => False | .quit => False | _ => True) :
    resp (a ++ b) = emits a ++ resp b := by
  induction a with
  | nil => simp [emits]
  | cons op r ih =>
    have hr := ih (fun o ho => h o (by simp [ho]))
    have hop := h op (by simp)
    cases op with
    | emit p => simp [resp, emits, hr]
    | drain => simp [resp, emits, hr]
    | call c s rz => cases rz <;> simp_all [resp, emits]
    | callRet c rz => cases rz <;> simp_all [resp, emits]
    | pull s => simp [resp, emits, hr]
    | yield_ => simp [resp, emits, hr]
    | raise_ e => simp at hop
    | selfKill k => simp [resp, emits, hr]
    | quit => simp at hop

theorem resp_colDefs (d : Bool) (n : Nat) (rest : List Op) :
    resp (colDefs d n ++ rest) = List.replicate n .colDef ++ resp rest := by
  cases d with
  | false =>
    induction n with
    | zero => simp [colDefs]
    | succ n ih =>
      simp only [colDefs, Bool.false_eq_true, if_false, List.replicate_succ, List.flatten_cons, List.append_assoc,
        List.cons_append, List.nil_append, resp] at ih ⊢
      rw [ih]
  | true =>
    induction n with
    | zero => simp [colDefs]
    | succ n ih =>
      simp only [colDefs, if_true, List.replicate_succ, List.flatten_cons, List.append_assoc,
        List.cons_append, List.nil_append, resp] at ih ⊢
      rw [ih]

theorem takeColDefs_replicate (n : Nat) (l : List PK) : takeColDefs n (List.replicate n .colDef ++ l) = some l := by
  induction n with
  | zero => rfl
  | succ n ih => simp [List.replicate_succ, takeColDefs, ih]

/-- rows of a source followed by a tail that is a terminator or raises: `Row* (terminator | ERR)` -/
theorem acceptRows_rowOps (d : Bool) (steps : List RStep) (tail : List Op)
    (ht : acceptRows (resp tail) = true) : acceptRows (resp (rowOps d steps ++ tail)) = true := by
  induction steps with
  | nil => simpa [rowOps] using ht
  | cons st r ih =>
    cases st with
    | row id s => cases d <;> simp [rowOps, resp, acceptRows, ih]
    | boom s => simp [rowOps, resp, acceptRows]

theorem acceptFieldList_colDefs (n : Nat) (tail : List PK) (h : acceptFieldList tail = true) :
    acceptFieldList (List.replicate n .colDef ++ tail) = true := by
  induction n with
  | zero => simpa using h
  | succ n ih => simp [List.replicate_succ, acceptFieldList, ih]

end Mimic.Script
