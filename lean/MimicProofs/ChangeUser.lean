import MimicProofs.Frame
/-!
`Connection.handle_change_user` (generated: the wrapper that turns every failure of `_change_user` into `AuthenticationFailed`)
plugged into the generated command step and loop as the handler of command 17.  What remains assumed is about `_change_user`
alone (the parameter `cu`: packet parsing, session variables, the authentication exchange — C01 / C02's models).
-/
namespace MimicProofs.ChangeUser
open Mimic.Py Mimic.Extracted.HandlersCode MimicProofs.HandlersCode MimicProofs.CommandLoop MimicProofs.Monotone MimicProofs.Frame
open Mimic.Extracted.ParsersCode (ComFieldList)

variable {S : Type} [DecidableEq S]

/-- the state `_change_user` leaves, however it ends -/
def _root_.Mimic.Extracted.HandlersCode.CUOut.state : CUOut S → Connection S
  | .returned s => s
  | .authfail s => s
  | .raised s => s

section cu
variable (cu : Connection S → Bytes → CUOut S) (cerr : Connection S → Bytes)

omit [DecidableEq S] in
/-- if `_change_user` only extends the effects, so does `handle_change_user` in both of its outcomes -/
theorem other_ext (hcu : ∀ c d, c.out <+: (cu c d).state.out) : ∀ k c d, Ext c (change_user_other cu cerr k c d) := by
  intro k c d
  have h := hcu c d
  simp only [change_user_other, handle_change_user]
  cases hx : cu c d with
  | returned s => rw [hx] at h; exact List.IsPrefix.trans h (List.prefix_append _ _)
  | authfail s => rw [hx] at h; exact h
  | raised s => rw [hx] at h; exact List.IsPrefix.trans h (List.prefix_append _ _)

omit [DecidableEq S] in
theorem auth_failed_ext (hcu : ∀ c d, c.out <+: (cu c d).state.out) :
    ∀ k c d s, change_user_auth_failed cu cerr k c d = some s → c.out <+: s.out := by
  intro k c d s hs
  have h := hcu c d
  simp only [change_user_auth_failed, handle_change_user] at hs
  cases hx : cu c d with
  | returned s' => rw [hx] at hs; simp at hs
  | authfail s' => rw [hx] at hs h; simp at hs; subst hs; exact h
  | raised s' => rw [hx] at hs h; simp at hs; subst hs; exact List.IsPrefix.trans h (List.prefix_append _ _)

omit [DecidableEq S] in
theorem other_keeps (hcu : ∀ c d, Same c (cu c d).state) : ∀ k c d, Keeps c (change_user_other cu cerr k c d) := by
  intro k c d
  have h := hcu c d
  simp only [change_user_other, handle_change_user]
  cases hx : cu c d with
  | returned s => rw [hx] at h; exact ⟨h.1, h.2⟩
  | authfail s => rw [hx] at h; exact h
  | raised s => rw [hx] at h; exact ⟨h.1, h.2⟩

omit [DecidableEq S] in
theorem auth_failed_keeps (hcu : ∀ c d, Same c (cu c d).state) :
    ∀ k c d s, change_user_auth_failed cu cerr k c d = some s → Same c s := by
  intro k c d s hs
  have h := hcu c d
  simp only [change_user_auth_failed, handle_change_user] at hs
  cases hx : cu c d with
  | returned s' => rw [hx] at hs; simp at hs
  | authfail s' => rw [hx] at hs h; simp at hs; subst hs; exact h
  | raised s' => rw [hx] at hs h; simp at hs; subst hs; exact ⟨h.1, h.2⟩

end cu

section step
variable (E : Env S) (cp : S → Nat) (pc : Nat → Bytes) (coldef : Nat → Nat → Bytes)
  (parse : Connection S → Bytes → Option (ComStmtExecute S)) (app : S → Option (ResultSet S))
  (ur : S → Bool) (fls : ComFieldList S → S) (fcd : Nat → S → Bytes → Bytes) (err : Connection S → Bytes)
  (cu : Connection S → Bytes → CUOut S) (cerr : Connection S → Bytes)

/-- the command step with `handle_change_user` in the place of the untranslated handler -/
abbrev stepCU (c : Connection S) (data : Bytes) : Connection S × Bool :=
  command_step E cp pc coldef parse app ur fls fcd (change_user_other cu cerr) err (change_user_auth_failed cu cerr) c data

/-- **One COM_CHANGE_USER exchange on the code.**  The packet `0x11 · payload`: if `_change_user` returns, the session's `reset`
    is awaited, nothing else is written, the sequence is reset and the loop goes on; if it raises `AuthenticationFailed` nothing
    is added to what the exchange wrote but the sequence reset, and the command phase **ends**; if it raises anything else,
    exactly one ERR is written (drained), the sequence is reset, and the command phase **ends**.  So a COM_CHANGE_USER that
    fails in any way terminates the connection, and it is never answered twice. -/
theorem change_user_exchange (c : Connection S) (payload : Bytes) :
    let c1 : Connection S := { c with _executing := true }
    match cu c1 payload with
    | .returned s => stepCU E cp pc coldef parse app ur fls fcd err cu cerr c (17 :: payload)
        = ({ s with _executing := false, out := s.out ++ [Ev.session_reset, Ev.reset_seq] }, true)
    | .authfail s => stepCU E cp pc coldef parse app ur fls fcd err cu cerr c (17 :: payload)
        = ({ s with _executing := false, out := s.out ++ [Ev.reset_seq] }, false)
    | .raised s => stepCU E cp pc coldef parse app ur fls fcd err cu cerr c (17 :: payload)
        = ({ s with _executing := false, out := s.out ++ [Ev.write (cerr s) true, Ev.reset_seq] }, false) := by
  intro c1
  have hu : untranslated.contains (17 : UInt8).toNat = true := by decide
  cases hx : cu c1 payload with
  | returned s =>
    have hx' : cu { c with _executing := true } payload = .returned s := hx
    simp only [stepCU, command_step, hu, if_true, change_user_auth_failed, handle_change_user, hx', dispatch, change_user_other]
    simp [Except.map]
  | authfail s =>
    have hx' : cu { c with _executing := true } payload = .authfail s := hx
    simp only [stepCU, command_step, hu, if_true, change_user_auth_failed, handle_change_user, hx']
  | raised s =>
    have hx' : cu { c with _executing := true } payload = .raised s := hx
    simp only [stepCU, command_step, hu, if_true, change_user_auth_failed, handle_change_user, hx']
    simp

/-- the command loop with `handle_change_user` in the place of the untranslated handler -/
abbrev loopCU (c : Connection S) (ps : List Bytes) : Connection S × Bool :=
  command_loop E cp pc coldef parse app ur fls fcd (change_user_other cu cerr) err (change_user_auth_failed cu cerr) c ps

/-- a COM_CHANGE_USER whose `_change_user` does not return ends the iteration with `false` -/
theorem failed_change_user_stops (c : Connection S) (payload : Bytes)
    (hfail : ∀ s, cu { c with _executing := true } payload ≠ .returned s) :
    (stepCU E cp pc coldef parse app ur fls fcd err cu cerr c (17 :: payload)).2 = false := by
  have h := change_user_exchange E cp pc coldef parse app ur fls fcd err cu cerr c payload
  dsimp only at h
  cases hx : cu { c with _executing := true } payload with
  | returned s => exact absurd hx (hfail s)
  | authfail s => rw [hx] at h; dsimp only at h; rw [h]
  | raised s => rw [hx] at h; dsimp only at h; rw [h]

/-- **Nothing a client sends after a failed COM_CHANGE_USER is looked at.**  In any conversation in which the command phase is
    still running after `pre`, a COM_CHANGE_USER whose `_change_user` fails (in any way) ends the loop there: the final state and
    everything written are those of that one iteration, whatever `post` the client pipelined behind it — no handler runs for it,
    no packet answers it. -/
theorem nothing_after_failed_change_user (c : Connection S) (pre post : List Bytes) (payload : Bytes)
    (hpre : (loopCU E cp pc coldef parse app ur fls fcd err cu cerr c pre).2 = false)
    (hfail : ∀ s, cu { (loopCU E cp pc coldef parse app ur fls fcd err cu cerr c pre).1 with _executing := true } payload ≠ .returned s) :
    loopCU E cp pc coldef parse app ur fls fcd err cu cerr c (pre ++ (17 :: payload) :: post)
      = ((stepCU E cp pc coldef parse app ur fls fcd err cu cerr (loopCU E cp pc coldef parse app ur fls fcd err cu cerr c pre).1 (17 :: payload)).1, true) := by
  have hs := failed_change_user_stops E cp pc coldef parse app ur fls fcd err cu cerr (loopCU E cp pc coldef parse app ur fls fcd err cu cerr c pre).1 payload hfail
  simp only [loopCU, stepCU] at *
  rw [loop_append, hpre]
  simp only [Bool.false_eq_true, if_false]
  rw [loop_cons, hs]
  simp

end step
end MimicProofs.ChangeUser
