import MimicProps.C18
import MimicProps.C04
import MimicProps.C11
import MimicProps.C05
