import MimicProps.C18
