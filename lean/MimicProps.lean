import MimicProps.C18
import MimicProps.C04
