import MimicProps.C18
import MimicProps.C04
import MimicProps.C11
import MimicProps.C05
import MimicProps.C06
import MimicProps.C17
import MimicProps.C02
import MimicProps.C03
