import MimicProps.C13
#print axioms MimicProps.C13.chain_known
#print axioms MimicProps.C13.chain_complete
#print axioms MimicProps.C13.query_args_pass_client_text
#print axioms MimicProps.C13.chain_entered_through_next
#print axioms MimicProps.C13.intercept_tests
#print axioms MimicProps.C13.route_none_iff
#print axioms MimicProps.C13.library_iff
#print axioms MimicProps.C13.use_iff
#print axioms MimicProps.C13.routing_is_code
#print axioms MimicProps.C13.each_statement_once_in_order
#print axioms MimicProps.C13.each_statement_once_in_order_on_failure
#print axioms MimicProps.C13.entry_decisions
#print axioms MimicProps.C13.app_calls_are_forwarded_in_order
#print axioms MimicProps.C13.client_gets_last
#print axioms MimicProps.C13.handleQuery_database
#print axioms MimicProps.C13.database_tracks_client
#print axioms MimicProps.C13.init_db_is_code
