import MimicProps.C03
#print axioms MimicProps.C03.response_is_script_or_prefix_err
#print axioms MimicProps.C03.idle_again_good
#print axioms MimicProps.C03.quiescent_when_idle
#print axioms MimicProps.C03.scriptOf_no_lifecycle
#print axioms MimicProps.C03.resp_callOps
#print axioms MimicProps.C03.response_accepted
#print axioms MimicProps.C03.resp_good
#print axioms MimicProps.C03.ok_roundtrip
#print axioms MimicProps.C03.eof_roundtrip
#print axioms MimicProps.C03.err_roundtrip
#print axioms MimicProps.C03.coldef_roundtrip
#print axioms MimicProps.C03.packet_kinds_distinct
#print axioms MimicProps.C03.reply_builders_are_code
#print axioms MimicProps.C03.code_ok_err_roundtrip
#print axioms MimicProps.C03.handler_skeletons
#print axioms MimicProps.C03.protocol_constants
