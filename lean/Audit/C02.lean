import MimicProps.C02
#print axioms MimicProps.C02.hexVal_hexDigit
#print axioms MimicProps.C02.fromhex_hexOf
#print axioms MimicProps.C02.native_complete
#print axioms MimicProps.C02.empty_password
#print axioms MimicProps.C02.native_sound
#print axioms MimicProps.C02.native_sound_sha
#print axioms MimicProps.C02.nonce_wellformed
#print axioms MimicProps.C02.native_start_fresh
#print axioms MimicProps.C02.native_send_uses_issued_nonce
#print axioms MimicProps.C02.native_reuses_handshake_nonce
#print axioms MimicProps.C02.clear_accepts_iff_check
#print axioms MimicProps.C02.clear_password_decoding_is_code
#print axioms MimicProps.C02.clear_password_unterminated
#print axioms MimicProps.C02.clear_password_terminated
#print axioms MimicProps.C02.nologin_never_accepts
#print axioms MimicProps.C02.session_user_is_vouched
#print axioms MimicProps.C02.xor_is_code
