import MimicProps.C05
#print axioms MimicProps.C05.nullbitmap_roundtrip
#print axioms MimicProps.C05.bitmap_offsets
#print axioms MimicProps.C05.bin_row_roundtrip
#print axioms MimicProps.C05.int_cell_exact
#print axioms MimicProps.C05.duration_roundtrip_binary
#print axioms MimicProps.C05.duration_text_fields
#print axioms MimicProps.C05.text_row_roundtrip
#print axioms MimicProps.C05.lenenc_roundtrip
#print axioms MimicProps.C05.int_text_roundtrip
#print axioms MimicProps.C05.infer_preserves_rows
#print axioms MimicProps.C05.infer_type_order
#print axioms MimicProps.C05.encoder_tables
#print axioms MimicProps.C05.lenenc_is_code
#print axioms MimicProps.C05.code_lenenc_roundtrip
#print axioms MimicProps.C05.code_str_roundtrip
#print axioms MimicProps.C05.types_coverage
#print axioms MimicProps.C05.temporal_encoders_are_code
