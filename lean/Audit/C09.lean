import MimicProps.C09
#print axioms MimicProps.C09.healthy_of_calm
#print axioms MimicProps.C09.toIdle_alive
#print axioms MimicProps.C09.runCmdArm_alive
#print axioms MimicProps.C09.armOps_err
#print axioms MimicProps.C09.throwHandler_alive
#print axioms MimicProps.C09.runHandler_alive
#print axioms MimicProps.C09.throwAt_handler_alive
#print axioms MimicProps.C09.step_alive
#print axioms MimicProps.C09.runAll_alive
#print axioms MimicProps.C09.kill_query_keeps_connection
#print axioms MimicProps.C09.kill_connection_terminates
#print axioms MimicProps.C09.kill_closed_noop
#print axioms MimicProps.C09.known_finding_kill_during_final_drain
#print axioms MimicProps.C09.kill_guards_shape
#print axioms MimicProps.C09.kill_is_code
#print axioms MimicProps.C09.self_kill_is_code
