import MimicProps.C18
#print axioms MimicProps.C18.live_ids_nodup
#print axioms MimicProps.C18.live_ids_prefix
#print axioms MimicProps.C18.add_succeeds_iff_not_full
#print axioms MimicProps.C18.new_id_fresh
#print axioms MimicProps.C18.resumes_after_remove
#print axioms MimicProps.C18.finds_iff_live
#print axioms MimicProps.C18.general_n
#print axioms MimicProps.C18.code_refines_model
#print axioms MimicProps.C18.code_ids_unique_and_admission
#print axioms MimicProps.C18.code_full_registry_refuses
