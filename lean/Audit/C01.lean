import MimicProps.C01
#print axioms MimicProps.C01.no_ok_without_success
#print axioms MimicProps.C01.success_ends_with_ok
#print axioms MimicProps.C01.closed_absorbing
#print axioms MimicProps.C01.closed_forever
#print axioms MimicProps.C01.failed_handshake_serves_nothing
#print axioms MimicProps.C01.failed_change_user_closes
#print axioms MimicProps.C01.code_nothing_after_failed_change_user
#print axioms MimicProps.C01.code_change_user_exchange
