import MimicProps.C11
#print axioms MimicProps.C11.fetch_take
#print axioms MimicProps.C11.fetch_count
#print axioms MimicProps.C11.flagged_only_when_empty
#print axioms MimicProps.C11.fetches_concat
#print axioms MimicProps.C11.fetches_flags
#print axioms MimicProps.C11.fetch_after_exhaustion
#print axioms MimicProps.C11.cursors_independent
#print axioms MimicProps.C11.prepare_frame
#print axioms MimicProps.C11.reexec_discards
#print axioms MimicProps.C11.reset_discards
#print axioms MimicProps.C11.close_discards
#print axioms MimicProps.C11.unknown_id_err
#print axioms MimicProps.C11.fetch_boom
