import MimicProps.C10
#print axioms MimicProps.C10.close_exactly_once
#print axioms MimicProps.C10.close_not_before_end
#print axioms MimicProps.C10.no_close_without_init
#print axioms MimicProps.C10.real_events_wf
#print axioms MimicProps.C10.coroutine_skeletons
#print axioms MimicProps.C10.code_admitted_is_released
#print axioms MimicProps.C10.code_remove_only_what_was_added
#print axioms MimicProps.C10.code_refused_gets_one_err
#print axioms MimicProps.C10.code_raises_only_from_start
