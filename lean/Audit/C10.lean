import MimicProps.C10
#print axioms MimicProps.C10.close_exactly_once
#print axioms MimicProps.C10.close_not_before_end
#print axioms MimicProps.C10.no_close_without_init
#print axioms MimicProps.C10.real_events_wf
#print axioms MimicProps.C10.coroutine_skeletons
