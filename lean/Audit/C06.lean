import MimicProps.C06
#print axioms MimicProps.C06.literal_lexes_back
#print axioms MimicProps.C06.interpolate_splice
#print axioms MimicProps.C06.interpolate_no_placeholder
#print axioms MimicProps.C06.count_prepare_eq_execute
#print axioms MimicProps.C06.placeholders_outside_quotes_partial
#print axioms MimicProps.C06.params_decode_roundtrip
#print axioms MimicProps.C06.int_param_roundtrip
#print axioms MimicProps.C06.long_data_concat
#print axioms MimicProps.C06.source_facts
#print axioms MimicProps.C06.read_params_is_code
#print axioms MimicProps.C06.code_params_decode_roundtrip
#print axioms MimicProps.C06.read_param_value_is_code
#print axioms MimicProps.C06.parse_com_stmt_execute_is_code
#print axioms MimicProps.C06.code_literal_lexes_back
#print axioms MimicProps.C06.send_long_data_is_code
#print axioms MimicProps.C06.reset_abandons_long_data_code
#print axioms MimicProps.C06.code_prepare_announces_placeholders
