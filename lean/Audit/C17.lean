import MimicProps.C17
#print axioms MimicProps.C17.dictOf_distinct
#print axioms MimicProps.C17.attrs_roundtrip_query
#print axioms MimicProps.C17.attrs_empty_query
#print axioms MimicProps.C17.no_attrs_without_capability
#print axioms MimicProps.C17.attrs_roundtrip_execute
#print axioms MimicProps.C17.sql_independent_of_attrs
#print axioms MimicProps.C17.parse_com_query_is_code
#print axioms MimicProps.C17.code_attrs_roundtrip_query
#print axioms MimicProps.C17.code_no_attrs_without_capability
