import MimicProps.C07
#print axioms MimicProps.C07.read_str_null_bounded
#print axioms MimicProps.C07.connect_attrs_bounded
#print axioms MimicProps.C07.readTypes_needs_bytes
#print axioms MimicProps.C07.any_packet_one_err_or_close
#print axioms MimicProps.C07.malformed_command_one_err
#print axioms MimicProps.C07.malformed_handshake_closes
#print axioms MimicProps.C07.closed_releases_registration
#print axioms MimicProps.C07.code_loops_terminate
#print axioms MimicProps.C07.code_read_str_null
#print axioms MimicProps.C07.code_parameter_loop_bounded
#print axioms MimicProps.C07.handshake_parser_is_code
#print axioms MimicProps.C07.connect_attrs_is_code
