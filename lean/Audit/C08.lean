import MimicProps.C08
#print axioms MimicProps.C08.upd_same
#print axioms MimicProps.C08.upd_other
#print axioms MimicProps.C08.projection_eq_solo
#print axioms MimicProps.C08.others_invisible
#print axioms MimicProps.C08.interleaving_irrelevant
#print axioms MimicProps.C08.driver_connections_independent
#print axioms MimicProps.C08.driver_step_is_interleaved_step
#print axioms MimicProps.C08.shared_state_audit
