import MimicProps.C04
#print axioms MimicProps.C04.step1_idle
#print axioms MimicProps.C04.drain_wire
#print axioms MimicProps.C04.reassemble_split
#print axioms MimicProps.C04.reassemble_split_M
#print axioms MimicProps.C04.packet_count
#print axioms MimicProps.C04.seq_consecutive
#print axioms MimicProps.C04.write_preserves_order
#print axioms MimicProps.C04.writes_preserve_order
#print axioms MimicProps.C04.feed_segmentation_independent
#print axioms MimicProps.C04.segmentations_agree
#print axioms MimicProps.C04.reassemble_any_segmentation
#print axioms MimicProps.C04.header_is_code
#print axioms MimicProps.C04.header_read_is_code
#print axioms MimicProps.C04.write_is_code
#print axioms MimicProps.C04.code_write_preserves_order
#print axioms MimicProps.C04.code_max_packet
