-- This module serves as the root of the `Mimic` library.
-- Import modules here that should be built as part of the library.
import Mimic.Basic
