import Mimic.Control
import Mimic.Framing
import Mimic.Cursor
import Mimic.Wire
import Mimic.Results
import Mimic.ResultsTables
import Mimic.Params
import Mimic.Drv
