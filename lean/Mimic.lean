import Mimic.Control
import Mimic.Drv
