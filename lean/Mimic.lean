import Mimic.Control
import Mimic.Framing
import Mimic.Drv
