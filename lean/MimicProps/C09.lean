import MimicProofs.Script
import MimicProofs.KillCode
import Mimic.Extracted.Handlers
/-!
# C09 — KILL QUERY spares the connection; KILL CONNECTION ends exactly the target

The response-shape part ("the statement in flight ends with exactly one ERR", "never an unsolicited packet") is
`MimicProps.C03.response_is_script_or_prefix_err` / `quiescent_when_idle`, which already quantify over kills of both
kinds at every event boundary.  This file adds: a QUERY kill never ends the connection; a CONNECTION kill always
does; a kill for a connection that is gone changes nothing; the known finding D9d as a witness theorem.
-/
namespace MimicProps.C09
open Mimic.Conn Mimic.Script

/-- the events a KILL QUERY scenario consists of: the application resuming, the client blocking / unblocking, any
    number of QUERY kills, and their delivery -/
def Ev.queryOnly : Ev → Bool
  | .resume => true
  | .block => true
  | .unblock => true
  | .kill .query => true
  | .deliver => true
  | _ => false

/-- the connection is alive and in one of the states a command can be in -/
def Alive (s : S) : Prop :=
  Healthy s ∧
  (match s.phase with
   | .idle => s.executing = false ∧ s.cancelReq = false
   | .parked .handler _ rest _ =>
       (∀ op ∈ rest, op.benign = true) ∧ s.executing = true ∧ (s.cancelReq = true → s.kill = some .query)
   | .parked .cmdArm .drain rest _ => ArmOps rest ∧ s.executing = false ∧ s.cancelReq = false
   | _ => False)

theorem healthy_of_calm {s s' : S} (h : Healthy s) (c : Calm s s') : Healthy s' :=
  ⟨by rw [c.lost]; exact h.1, by rw [c.eofSeen]; exact h.2.1, by rw [c.mustCancel]; exact h.2.2.1,
   by rw [c.kill]; exact h.2.2.2⟩

theorem toIdle_alive (s : S) (h : Healthy s) (he : s.executing = false) (hc : s.cancelReq = false) :
    Alive (toIdle s) := by
  obtain ⟨h1, h2, h3, h4⟩ := h
  rcases toIdle_cases s with ⟨heq, _, _, _⟩ | ht
  · rw [heq]; exact ⟨⟨h1, h2, h3, h4⟩, he, hc⟩
  · exfalso
    unfold toIdle at ht
    simp only [h1, h2, h3, Bool.false_eq_true, if_false] at ht
    rcases ht with hx | ⟨_, _, _, hx⟩ | ⟨_, _, _, hx⟩ <;> simp at hx

theorem runCmdArm_alive (ops : List Op) (s : S) (h : Healthy s) (he : s.executing = false) (hc : s.cancelReq = false)
    (ha : ArmOps ops) : Alive (runCmdArm s ops) := by
  unfold runCmdArm
  rcases runOps_arm .cmdArm _ _ none ops s h.1 h.2.2.1 ha with ⟨s', c, hr⟩ | ⟨rest, c, hph, har⟩
  · rw [hr]
    have hs' := healthy_of_calm h c
    have he' : s'.executing = false := by rw [c.executing]; exact he
    have hc' : s'.cancelReq = false := by rw [c.cancelReq]; exact hc
    split
    · exact toIdle_alive _ ⟨hs'.1, hs'.2.1, hs'.2.2.1, by simp⟩ he' hc'
    · exact toIdle_alive _ hs' he' hc'
  · refine ⟨healthy_of_calm h c, ?_⟩
    rw [hph]
    exact ⟨har, by rw [c.executing]; exact he, by rw [c.cancelReq]; exact hc⟩

theorem armOps_err (c : ErrC) : ArmOps [.emit (.err c), .drain] := by
  intro op h; simp at h; rcases h with rfl | rfl
  · exact Or.inl ⟨_, rfl⟩
  · exact Or.inr rfl

theorem throwHandler_alive (s : S) (e : Exc) (h : Healthy s) (hc : s.cancelReq = false)
    (he : e = .mysqlError ∨ e = .generic ∨ (e = .cancelled ∧ s.kill = some .query)) : Alive (throwHandler s e) := by
  have hh : Healthy { s with executing := false } := ⟨h.1, h.2.1, h.2.2.1, h.2.2.2⟩
  unfold throwHandler
  rcases he with rfl | rfl | ⟨rfl, hk⟩
  · exact runCmdArm_alive _ _ hh rfl hc (armOps_err _)
  · exact runCmdArm_alive _ _ hh rfl hc (armOps_err _)
  · simp only
    rw [if_pos hk]
    exact runCmdArm_alive _ _ hh rfl hc (armOps_err _)

theorem runHandler_alive (ops : List Op) (s : S) (h : Healthy s) (hc : s.cancelReq = false) (he : s.executing = true)
    (hb : ∀ op ∈ ops, op.benign = true) : Alive (runHandler s ops) := by
  unfold runHandler
  rcases runOps_benign .handler _ _ none ops s h.1 h.2.2.1 hb with ⟨s', c, hr⟩ | ⟨s', e, c, hee, hr⟩ | ⟨w, rest, c, hph, hbr⟩
  · rw [hr]
    have hs' := healthy_of_calm h c
    exact toIdle_alive _ ⟨hs'.1, hs'.2.1, hs'.2.2.1, hs'.2.2.2⟩ rfl (by show s'.cancelReq = false; rw [c.cancelReq]; exact hc)
  · rw [hr]
    exact throwHandler_alive s' e (healthy_of_calm h c) (by rw [c.cancelReq]; exact hc)
      (by rcases hee with rfl | rfl; exact Or.inl rfl; exact Or.inr (Or.inl rfl))
  · refine ⟨healthy_of_calm h c, ?_⟩
    rw [hph]
    exact ⟨hbr, by rw [c.executing]; exact he, by intro hx; rw [c.cancelReq, hc] at hx; cases hx⟩

theorem throwAt_handler_alive (x : S) (h : Healthy x) (hc : x.cancelReq = false) (hk : x.kill = some .query) :
    Alive (throwAt x .handler .cancelled) :=
  throwHandler_alive x .cancelled h hc (Or.inr (Or.inr ⟨rfl, hk⟩))

/-- **KILL QUERY never ends the connection.**  From any alive state, any sequence of the application resuming,
    the client blocking / unblocking, QUERY kills (repeated, at any boundary) and their delivery leaves the
    connection alive: idle, or still inside a command — never closed, never on the termination path. -/
theorem step_alive (s : S) (ev : Ev) (hev : Ev.queryOnly ev = true) (h : Alive s) : Alive (step s ev) := by
  obtain ⟨hh, hm⟩ := h
  cases ev with
  | handshake _ _ _ => simp [Ev.queryOnly] at hev
  | cmd _ => simp [Ev.queryOnly] at hev
  | eof => simp [Ev.queryOnly] at hev
  | lose => simp [Ev.queryOnly] at hev
  | block =>
    refine ⟨hh, ?_⟩
    show (match s.phase with | _ => _)
    exact hm
  | resume =>
    simp only [step]
    split
    · exact ⟨hh, hm⟩
    · rename_i hcr
      split
      · rename_i lvl rest exc hph
        rw [hph] at hm
        cases lvl with
        | handler => exact runHandler_alive rest s hh (by simpa using hcr) hm.2.1 hm.1
        | cmdArm => exact absurd hm (by simp)
        | connPhase => exact absurd hm (by simp)
        | initing => exact absurd hm (by simp)
        | connArm => exact absurd hm (by simp)
        | startArm => exact absurd hm (by simp)
        | closing => exact absurd hm (by simp)
      · exact ⟨hh, hm⟩
  | unblock =>
    simp only [step]
    split
    · refine ⟨hh, ?_⟩
      show (match s.phase with | _ => _)
      exact hm
    · rename_i hcr
      split
      · rename_i lvl rest exc hph
        rw [hph] at hm
        cases lvl with
        | handler => exact runHandler_alive rest _ hh (by simpa using hcr) hm.2.1 hm.1
        | cmdArm => exact runCmdArm_alive rest _ hh hm.2.1 hm.2.2 hm.1
        | connPhase => exact absurd hm (by simp)
        | initing => exact absurd hm (by simp)
        | connArm => exact absurd hm (by simp)
        | startArm => exact absurd hm (by simp)
        | closing => exact absurd hm (by simp)
      · refine ⟨hh, ?_⟩
        show (match s.phase with | _ => _)
        exact hm
  | kill k =>
    cases k with
    | conn => simp [Ev.queryOnly] at hev
    | query =>
      simp only [step]
      split
      · rename_i hph; rw [hph] at hm; exact absurd hm (by simp)
      · split
        · rename_i hacc
          simp only [Bool.and_eq_true, Option.isNone_iff_eq_none] at hacc
          refine ⟨⟨hh.1, hh.2.1, hh.2.2.1, by simp⟩, ?_⟩
          -- only a parked handler is executing
          cases hph : s.phase with
          | idle => rw [hph] at hm; rw [hm.1] at hacc; simp at hacc
          | greeting => rw [hph] at hm; exact absurd hm (by simp)
          | closed => rw [hph] at hm; exact absurd hm (by simp)
          | parked lvl w rest exc =>
            rw [hph] at hm
            cases lvl with
            | handler => exact ⟨hm.1, hm.2.1, fun _ => rfl⟩
            | cmdArm =>
              cases w with
              | drain => rw [hm.2.1] at hacc; simp at hacc
              | future => exact absurd hm (by simp)
            | connPhase => exact absurd hm (by simp)
            | initing => exact absurd hm (by simp)
            | connArm => exact absurd hm (by simp)
            | startArm => exact absurd hm (by simp)
            | closing => exact absurd hm (by simp)
        · exact ⟨hh, hm⟩
  | deliver =>
    simp only [step]
    split
    · rename_i hcr
      cases hph : s.phase with
      | idle => rw [hph] at hm; rw [hm.2] at hcr; cases hcr
      | greeting => rw [hph] at hm; exact absurd hm (by simp)
      | closed => rw [hph] at hm; exact absurd hm (by simp)
      | parked lvl w rest exc =>
        rw [hph] at hm
        simp only
        cases lvl with
        | handler =>
          have hk : s.kill = some .query := hm.2.2 hcr
          apply throwAt_handler_alive
          · exact ⟨hh.1, hh.2.1, hh.2.2.1, hh.2.2.2⟩
          · rfl
          · exact hk
        | cmdArm =>
          cases w with
          | drain => rw [hm.2.2] at hcr; cases hcr
          | future => exact absurd hm (by simp)
        | connPhase => exact absurd hm (by simp)
        | initing => exact absurd hm (by simp)
        | connArm => exact absurd hm (by simp)
        | startArm => exact absurd hm (by simp)
        | closing => exact absurd hm (by simp)
    · exact ⟨hh, hm⟩

theorem runAll_alive (evs : List Ev) (hev : ∀ e ∈ evs, Ev.queryOnly e = true) : ∀ s, Alive s → Alive (runAll s evs) := by
  induction evs with
  | nil => intro s h; exact h
  | cons e es ih => intro s h; exact ih (fun x hx => hev x (by simp [hx])) _ (step_alive s e (hev e (by simp)) h)

/-- the headline: a command with a benign script on a healthy idle connection, then any such event sequence -/
theorem kill_query_keeps_connection (s : S) (script : List Op) (evs : List Ev)
    (hidle : s.phase = .idle) (hh : Healthy s) (hc : s.cancelReq = false)
    (hb : ∀ op ∈ script, op.benign = true) (hev : ∀ e ∈ evs, Ev.queryOnly e = true) :
    Alive (runAll (step s (.cmd script)) evs) ∧ (runAll (step s (.cmd script)) evs).phase ≠ .closed := by
  have h0 : Alive (step s (.cmd script)) := by
    simp only [step, hidle]
    exact runHandler_alive script _ hh hc rfl hb
  have h := runAll_alive evs hev _ h0
  refine ⟨h, ?_⟩
  intro hcl
  rw [Alive, hcl] at h
  exact h.2

/-- **KILL CONNECTION always ends the target**: wherever the coroutine is, the kill followed by its delivery puts
    the connection on the termination path (closed, or finishing the "Session was killed" ERR / `session.close`). -/
theorem kill_connection_terminates (s : S) (h : s.phase ≠ .closed) :
    Terminating (step (step s (.kill .conn)) .deliver) ∨ (step (step s (.kill .conn)) .deliver).phase = .closed := by
  have e1 : step s (.kill .conn) = { s with kill := some .conn, cancelReq := true } := by
    cases hp : s.phase <;> simp_all [step]
  rw [e1]
  simp only [step, if_true]
  cases hph : s.phase with
  | closed => exact absurd hph h
  | greeting =>
    left; simp only [throwConn]; exact release_terminating _ _
  | idle => left; exact throwStart_terminating _ _
  | parked lvl w rest exc =>
    left
    simp only
    cases lvl with
    | connPhase => simp only [throwAt, throwConn]; exact release_terminating _ _
    | initing => simp only [throwAt, throwConn]; exact release_terminating _ _
    | connArm => exact release_terminating _ _
    | handler =>
      simp only [throwAt, throwHandler]
      have : (some Kill.conn = some Kill.query) = False := by simp
      simp only [this, if_false]
      exact throwStart_terminating _ _
    | cmdArm => exact throwStart_terminating _ _
    | startArm => exact closeSession_terminating _ _
    | closing => exact release_terminating _ _

/-- a kill aimed at a connection that already ended changes nothing (an unknown id never reaches `kill` at all:
    `MimicProps.C18.finds_iff_live`) -/
theorem kill_closed_noop (s : S) (k : Kill) (h : s.phase = .closed) : step s (.kill k) = s := by
  simp [step, h]

/-- **Known finding D9d (witness).** A QUERY kill that lands while the drain of the *final* packet of a response is
    blocked appends `ERR Query was killed` after the complete response: here PING → `ok`, then `err queryKilled`. -/
theorem known_finding_kill_during_final_drain :
    let s0 : S := { phase := .idle, blocked := true }
    let s1 := step s0 (.cmd (scriptOf false .ping))
    let s2 := step (step (step s1 (.kill .query)) .deliver) .unblock
    s1.out = [.ok] ∧ s2.out = [.ok, .err .queryKilled] ∧ s2.phase = .idle := by
  simp [step, scriptOf, runHandler, runOps, flush, throwAt, throwHandler, runCmdArm, toIdle, resumeAt]

/-- non-vacuity of `kill_query_keeps_connection`: a healthy idle state and a benign script exist -/
example : Healthy ({ phase := .idle } : S) ∧ (∀ op ∈ scriptOf true (.query { callSusp := true, ncols := 1, rows := [.row 1 true] }), op.benign = true) := by
  refine ⟨⟨rfl, rfl, rfl, by simp⟩, by decide⟩

/-- **`Connection.kill` has the guards the machine's `kill` event assumes** (extracted on every run): no task → nothing;
    KILL QUERY is ignored unless a command is executing and no kill is pending, and when issued by the connection's own
    task; otherwise the kind is recorded and the task cancelled. -/
theorem kill_guards_shape :
    Mimic.Extracted.Handlers.coroutine.lookup "Connection.kill" = some "IF(not self._task)[RETURN]ELSE[] IF(kind == KillKind.QUERY)[IF(not self._executing or self._kill is not None)[RETURN]ELSE[] IF(asyncio.current_task() is self._task)[RETURN]ELSE[]]ELSE[] SET(_kill=kind) DO(cancel)" := by
  decide +kernel

/-! ### `Connection.kill` itself (`Mimic.Extracted.KillCode`, regenerated from `/repo` by `harness/pytrans2.py`) -/

/-- **`Connection.kill`, translated, is the machine's `kill` event** for every machine state and both kinds: a closed
    connection ignores it; KILL QUERY is recorded only while a command is executing and no kill is pending; KILL
    CONNECTION is always recorded; recording goes with the cancellation request.  The invariants and termination
    theorems of this file, which are about the machine's event, are thereby about the code's method. -/
theorem kill_is_code (s : Mimic.Conn.S) (k : Mimic.Conn.Kill) :
    Mimic.Extracted.KillCode.kill (MimicProofs.KillCode.view s) (MimicProofs.KillCode.kindOf k) false
      = MimicProofs.KillCode.view (Mimic.Conn.step s (.kill k)) :=
  MimicProofs.KillCode.kill_is_event s k

/-- a KILL statement executed by the target itself (`asyncio.current_task() is self._task`): KILL QUERY does nothing,
    KILL CONNECTION records the kind and requests the cancellation (the machine's `selfKill` operation) -/
theorem self_kill_is_code (c : Mimic.Extracted.KillCode.Connection Unit) (t : Mimic.Extracted.KillCode.Task Unit) (ht : c._task = some t) :
    Mimic.Extracted.KillCode.kill c Mimic.Extracted.KillCode.KILL_QUERY true = c ∧
    Mimic.Extracted.KillCode.kill c Mimic.Extracted.KillCode.KILL_CONNECTION true
      = { c with _kill := some Mimic.Extracted.KillCode.KILL_CONNECTION, _task := some { t with cancel_requested := true } } :=
  MimicProofs.KillCode.kill_from_own_task c t ht

end MimicProps.C09
