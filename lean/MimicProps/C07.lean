import MimicProofs.Packets
import MimicProofs.Params
import MimicProps.C03
import MimicProps.C10
import MimicProofs.ParsersCode
/-!
# C07 — Malformed or hostile packets cannot hang, crash or wedge the server

What a theorem can carry here:
* every parser of the model is a **total** Lean function (structural recursion / fuel bounded by the input length —
  accepted by the kernel without `partial`), so "terminates on every byte string" holds by construction; the
  loops whose Python originals are unbounded (`read_str_null`, `_read_connect_attrs`) are shown to need no more
  iterations than there are input bytes;
* whatever a packet makes the parser / handler do (an *arbitrary* script), the connection answers with the
  response or a prefix closed by exactly one ERR and is idle again, or it is closed and released.
What it cannot carry: that the *Python* code does the same amount of work.  That is measured by the
correspondence check (line-event budget under `sys.monitoring`, liveness of a witness connection).
-/
namespace MimicProps.C07
open Mimic.Wire Mimic.Packets Mimic.Conn Mimic.Params

/-- `read_str_null` consumes at most the input and always returns (end of input also terminates the string) -/
theorem read_str_null_bounded (b : Bytes) : (readNul b).1.length + (readNul b).2.length ≤ b.length :=
  readNul_length b

/-- `_read_connect_attrs`: the loop is bounded by the input length, whatever length the packet claims -/
theorem connect_attrs_bounded (dec : Bytes → Option Bytes) (b : Bytes) (fuel : Nat) (total : Int) (h : b.length < fuel) :
    readConnectAttrs dec fuel total b = readConnectAttrs dec (b.length + 1) total b :=
  readConnectAttrs_fuel dec b.length b fuel (b.length + 1) total rfl h (by omega)

/-- a parameter block that claims more parameters than there are bytes is rejected, never looped over: the type
    list alone needs two bytes per parameter -/
theorem readTypes_needs_bytes (valid : List Nat) (qa : Bool) : ∀ (n : Nat) (b : Bytes) (ts : List PType) (r : Bytes),
    readTypes valid qa n b = some (ts, r) → 2 * n ≤ b.length := by
  intro n
  induction n with
  | zero => intro b ts r _; omega
  | succ n ih =>
    intro b ts r h
    match b, h with
    | t :: f :: rest, h =>
      simp only [readTypes] at h
      split at h
      · cases qa with
        | true =>
          simp only [if_true] at h
          cases hd : decStr rest with
          | none => simp [hd] at h
          | some nr =>
            obtain ⟨nm, r'⟩ := nr
            simp only [hd] at h
            cases hr : readTypes valid true n r' with
            | none => simp [hr] at h
            | some x =>
              have := ih r' x.1 x.2 hr
              have := decStr_shorter rest nm r' hd
              simp; omega
        | false =>
          simp only [Bool.false_eq_true, if_false] at h
          cases hr : readTypes valid false n rest with
          | none => simp [hr] at h
          | some x =>
            have := ih rest x.1 x.2 hr
            simp; omega
      · simp at h

/-- **Any packet in the command phase**: whatever script it induces (in particular `raise_ generic` for a payload
    the parser rejects, `raise_ mysqlError` for an unknown command) and whatever the application / client do
    meanwhile, the connection writes the response or a prefix closed by exactly one ERR and is idle again — or it
    is on the termination path.  (Instance of the C03 machine theorem.) -/
theorem any_packet_one_err_or_close (s : S) (script : List Op) (evs : List Ev)
    (hidle : s.phase = .idle) (hl : s.lost = false) (hlc : ∀ op ∈ script, op.lifecycle = false)
    (hev : ∀ e ∈ evs, e.internal = true) :
    CmdInv s.written (emits script) (runAll (step s (.cmd script)) evs) :=
  MimicProps.C03.response_is_script_or_prefix_err s script evs hidle hl hlc hev

/-- a payload the parser rejects: exactly one ERR, the connection stays in step (idle) -/
theorem malformed_command_one_err (s : S) (hidle : s.phase = .idle) (hl : s.lost = false) (hb : s.blocked = false)
    (he : s.eofSeen = false) (hm : s.mustCancel = false) (hbuf : s.buf = []) (hk : s.kill = none) :
    (step s (.cmd [.raise_ .generic])).phase = .idle ∧ (step s (.cmd [.raise_ .generic])).out = s.out ++ [.err .generic] := by
  simp [step, hidle, runHandler, runOps, throwHandler, runCmdArm, flush, hl, hb, toIdle, he, hm, hbuf, hk]

/-- **Connection phase**: a handshake response the parser rejects gets exactly one ERR and the connection is
    closed and released (instance of C01 / C10). -/
theorem malformed_handshake_closes :
    (step init (.handshake (Mimic.Script.loginScript .malformed) false false)).phase = .closed ∧
    (step init (.handshake (Mimic.Script.loginScript .malformed) false false)).out = [.greeting, .err .handshake] ∧
    (step init (.handshake (Mimic.Script.loginScript .malformed) false false)).registered = false := by
  simp [step, init, Mimic.Script.loginScript, runConnPhase, runOps, throwConn, runConnArm, flush, release]

/-- the offending connection's registration is released when it ends, whatever happened (C10) -/
theorem closed_releases_registration (evs : List Ev) (hwf : ∀ e ∈ evs, e.wf)
    (hclosed : (runAll init evs).phase = .closed) :
    (runAll init evs).registered = false ∧ (runAll init evs).transportClosed = true :=
  (MimicProps.C10.close_exactly_once evs hwf hclosed).2

/-- non-vacuity: a 2^64-1 `total_l` with three bytes of input is rejected after a bounded number of steps -/
example : connectAttrs some ([0xFE, 0xFF, 0xFF, 0xFF, 0xFF, 0xFF, 0xFF, 0xFF, 0xFF] ++ [1, 65, 0]) = none := by decide

/-! ### the code itself (`Mimic.Extracted.ParsersCode`, regenerated from `/repo` by `harness/pytrans2.py`) -/

/-- **Every `while` loop of the translated client-packet parsers terminates** within the fuel the translator chose
    (one more than the number of unread bytes), for every input: `read_str_null` (`while True`) and the
    `while total_l > 0` of `_read_connect_attrs`, whatever total length the packet claims and whatever the codec does.
    The other loops of the parsers are `for` loops over `range(n)` / lists (structurally finite; see
    `code_parameter_loop_bounded` for the number of rounds). -/
theorem code_loops_terminate :
    (∀ r : Mimic.Py.Bytes, Mimic.Py.loopM (r.length + 1) (([] : Mimic.Py.Bytes), r)
        Mimic.Extracted.ParsersCode.read_str_null_loop1 ≠ none) ∧
    (∀ (E : Mimic.Py.Env (List Char)) (cs : Nat) (r : Mimic.Py.Bytes) (d : List (List Char × List Char)) (total : Int),
        Mimic.Py.loopM (r.length + 1) (d, total, r) (Mimic.Extracted.ParsersCode.read_connect_attrs_loop1 E cs) ≠ none) :=
  ⟨MimicProofs.ParsersCode.read_str_null_terminates,
   fun E cs r d total => MimicProofs.ParsersCode.connect_attrs_loop_terminates E cs r.length r rfl d total (r.length + 1) (by omega)⟩

/-- the translated `read_str_null` is the model's `readNul` (so `read_str_null_bounded` is a statement about the code) -/
theorem code_read_str_null (r : Mimic.Py.Bytes) :
    Mimic.Extracted.ParsersCode.read_str_null r = some (readNul r) :=
  MimicProofs.ParsersCode.read_str_null_eq r

/-- **a parameter block that claims more parameters than there are bytes is rejected by the code**: when the translated
    `_read_params` returns at all, its two `for` loops ran at most `len/2` rounds -/
theorem code_parameter_loop_bounded (E : Mimic.Py.Env (List Char)) (caps cs : Nat) (valid : List Nat)
    (hv : ∀ n, E.validType n = valid.contains n) (hE : E.decode cs [] = some E.empty) (count : Nat)
    (buffers : Option (List (Nat × Mimic.Py.Bytes))) (r : Mimic.Py.Bytes) (hr : r.length < 2 ^ 63)
    (out : List (Option (List Char) × Mimic.Py.Val (List Char)) × Mimic.Py.Bytes)
    (h : Mimic.Extracted.ParsersCode.read_params E r caps cs count buffers = some out) : 2 * count ≤ r.length := by
  rw [MimicProofs.ParsersCode.read_params_eq E caps cs valid hv hE count buffers r hr] at h
  cases hm : readParams valid (E.decode cs) (Mimic.Py.hasBit caps 27) count (MimicProofs.ParsersCode.bufFn buffers) r with
  | none => simp [hm] at h
  | some q =>
    unfold readParams at hm
    by_cases hc : count = 0
    · omega
    · simp only [hc, if_false] at hm
      cases htake : takeN ((count + 7) / 8) r with
      | none => simp [htake] at hm
      | some p =>
        obtain ⟨bm, b1⟩ := p
        simp only [htake] at hm
        cases b1 with
        | nil => simp at hm
        | cons flag b2 =>
          simp only at hm
          by_cases hflag : flag = 0
          · simp [hflag] at hm
          · simp only [hflag, if_false] at hm
            cases hty : readTypes valid (Mimic.Py.hasBit caps 27) count b2 with
            | none => simp [hty] at hm
            | some t =>
              obtain ⟨types, b3⟩ := t
              have hb := readTypes_needs_bytes valid _ count b2 types b3 hty
              unfold takeN at htake
              split at htake
              · simp at htake
                have hl : (flag :: b2).length = r.length - (count + 7) / 8 := by rw [← htake.2]; simp
                simp at hl
                omega
              · simp at htake

/-- **`parse_handshake_response` of `packets.py`, translated, is the model's `parseHandshakeResponse`** for every server
    capability set, every collation table, every codec and every byte string: capability intersection, the SSL-request
    short form, user name, both layouts of the auth response, the optional database / plugin / connect attributes / zstd
    level. (The model's `HsParse.error` is "the Python code raises".) -/
theorem handshake_parser_is_code (E : Mimic.Py.Env Bytes) (caps : Nat) (data : Bytes) :
    MimicProofs.ParsersCode.toHs (Mimic.Extracted.ParsersCode.parse_handshake_response E caps data)
      = parseHandshakeResponse caps E.collation E.decode data :=
  MimicProofs.ParsersCode.parse_handshake_response_eq E caps data

/-- the translated `_read_connect_attrs` (its `while` loop and the Python dict it fills) is the model's `connectAttrs` -/
theorem connect_attrs_is_code (E : Mimic.Py.Env Bytes) (cs : Nat) (r : Bytes) :
    Mimic.Extracted.ParsersCode.read_connect_attrs E r cs = connectAttrs (E.decode cs) r :=
  MimicProofs.ParsersCode.read_connect_attrs_eq E cs r

end MimicProps.C07
