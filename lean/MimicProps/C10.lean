import MimicProofs.ConnLife
import Mimic.Extracted.ServerCode
import MimicProofs.Script
import MimicProps.C03
import Mimic.Extracted.Handlers
/-!
# C10 — Every initialised session is closed exactly once; every connection is released

`runAll init evs` is the connection after an arbitrary history `evs` of: the handshake response arriving (with any
connection-phase script and any behaviour of `session.init`), commands (any handler script), the application
resuming, the client blocking / unblocking, kills of either kind and their delivery, the client closing its side
after any event, and the transport failing at any point (`lose`; a coroutine parked in a drain is woken with the
error, otherwise the loss is noticed at the next drain or read).  `session.close` may itself raise (`closeFails`).
-/
namespace MimicProps.C10
open Mimic.Conn Mimic.Script

/-- **Close exactly once iff initialised; released when ended** — for every history. -/
theorem close_exactly_once (evs : List Ev) (hwf : ∀ e ∈ evs, e.wf)
    (hclosed : (runAll init evs).phase = .closed) :
    (runAll init evs).closeCalls = (if (runAll init evs).initDone then 1 else 0) ∧
    (runAll init evs).registered = false ∧ (runAll init evs).transportClosed = true := by
  have h := runAll_lc evs hwf init init_lc
  simp only [LCInv, hclosed] at h
  exact h

/-- **Never closed early, never twice**: while the connection has not ended, `session.close` has not been called;
    at every moment it has been called at most once. -/
theorem close_not_before_end (evs : List Ev) (hwf : ∀ e ∈ evs, e.wf) :
    ((runAll init evs).phase ≠ .closed → (runAll init evs).closeCalls = 0) ∧ (runAll init evs).closeCalls ≤ 1 := by
  have h := runAll_lc evs hwf init init_lc
  generalize runAll init evs = s at *
  unfold LCInv at h
  cases hph : s.phase with
  | closed => rw [hph] at h; refine ⟨fun c => absurd rfl c, ?_⟩; rw [h.1]; split <;> omega
  | greeting => rw [hph] at h; exact ⟨fun _ => h.1, by omega⟩
  | idle => rw [hph] at h; exact ⟨fun _ => h.1, by omega⟩
  | parked lvl w rest exc =>
    rw [hph] at h
    cases lvl <;> first
      | exact ⟨fun _ => h.1, by have := h.1; omega⟩
      | exact absurd h (by simp)

/-- the session is never closed unless it was initialised -/
theorem no_close_without_init (evs : List Ev) (hwf : ∀ e ∈ evs, e.wf)
    (hni : (runAll init evs).initDone = false) : (runAll init evs).closeCalls = 0 := by
  have h := runAll_lc evs hwf init init_lc
  have h2 := close_not_before_end evs hwf
  by_cases hc : (runAll init evs).phase = .closed
  · simp only [LCInv, hc] at h
    rw [h.1, hni]; rfl
  · exact h2.1 hc

/-- the scripts the real handlers and the connection phase produce satisfy the hypothesis `Ev.wf` -/
theorem real_events_wf (dep : Bool) (cmd : Cmd) (l : Login) (a b : Bool) :
    (Ev.cmd (scriptOf dep cmd)).wf ∧ (Ev.handshake (loginScript l) a b).wf := by
  refine ⟨MimicProps.C03.scriptOf_no_lifecycle dep cmd, ?_⟩
  intro op h
  cases l <;> simp [loginScript] at h <;> rcases h with rfl | rfl | rfl <;> rfl

/-- non-vacuity: a history that initialises, streams a query with the application pending, loses the transport
    mid-command and ends closed with exactly one `close` -/
example :
    let evs : List Ev := [.handshake (loginScript (.ok false false)) false false,
                          .cmd (scriptOf false (.query { callSusp := true, ncols := 1, rows := [.row 1 false] })),
                          .lose, .resume]
    (runAll init evs).phase = .closed ∧ (runAll init evs).closeCalls = 1 ∧ (runAll init evs).initDone = true := by
  simp [runAll, step, init, loginScript, scriptOf, callOps, colDefs, rowOps, runConnPhase, runOps, flush, startInit,
    finishInit, toIdle, runHandler, resumeAt, throwHandler, runCmdArm, throwStart, closeSession, runClosing, release]

/-- **the coroutine around the handlers has the shape the connection machine assumes** (extracted from
    `connection.py` / `server.py` on every run): `_start` (connection phase and `session.init` inside one `try`, the
    `AuthenticationFailed` / `Exception` arms, `command_phase` under the KILL CONNECTION arm, `session.close` in
    `finally`), `command_phase` (read outside the handler's `try`, the `_executing` flag, the dispatch chain, the
    `MysqlError` / `AuthenticationFailed` / `CancelledError` / `Exception` arms, `reset_seq` in `finally`), the guards of
    `kill`, the task life cycle in `start`, and registration / `writer.close()` / deregistration in the server callback. -/
theorem coroutine_skeletons : Mimic.Extracted.Handlers.coroutine = [
      ("Connection._start", "TRY[CALL(connection_phase) CALL(init)] EXCEPT(AuthenticationFailed)[RETURN] EXCEPT(Exception)[W(err,drain) RAISE()] TRY[CALL(command_phase)] EXCEPT(asyncio.CancelledError)[IF(self._kill == KillKind.CONNECTION)[W(err,drain) SET(_kill=None)]ELSE[RAISE()]] FINALLY[CALL(close)]"),
      ("Connection.command_phase", "WHILE(True)[TRY[READ] EXCEPT(ConnectionClosed)[RETURN] SET(_executing=True) TRY[IF(command == types.Commands.COM_QUERY)[H(query)]ELSE[IF(command == types.Commands.COM_STMT_PREPARE)[H(stmt_prepare)]ELSE[IF(command == types.Commands.COM_STMT_SEND_LONG_DATA)[H(stmt_send_long_data)]ELSE[IF(command == types.Commands.COM_STMT_EXECUTE)[H(stmt_execute)]ELSE[IF(command == types.Commands.COM_STMT_FETCH)[H(stmt_fetch)]ELSE[IF(command == types.Commands.COM_STMT_RESET)[H(stmt_reset)]ELSE[IF(command == types.Commands.COM_STMT_CLOSE)[H(stmt_close)]ELSE[IF(command == types.Commands.COM_PING)[H(ping)]ELSE[IF(command == types.Commands.COM_CHANGE_USER)[H(change_user)]ELSE[IF(command == types.Commands.COM_RESET_CONNECTION)[H(reset_connection)]ELSE[IF(command == types.Commands.COM_DEBUG)[H(debug)]ELSE[IF(command == types.Commands.COM_QUIT)[RETURN]ELSE[IF(command == types.Commands.COM_INIT_DB)[H(init_db)]ELSE[IF(command == types.Commands.COM_FIELD_LIST)[H(field_list)]ELSE[RAISE(MysqlError(f'Unsupported Command: {hex(c)]]]]]]]]]]]]]]] EXCEPT(MysqlError)[SET(_executing=False) W(err,drain)] EXCEPT(AuthenticationFailed)[RETURN] EXCEPT(asyncio.CancelledError)[IF(self._kill == KillKind.QUERY)[SET(_executing=False) IF(self._task and hasattr(self._task, 'uncancel'))[DO(uncancel)]ELSE[] W(err,drain) SET(_kill=None)]ELSE[RAISE()]] EXCEPT(Exception)[SET(_executing=False) W(err,drain)] FINALLY[SET(_executing=False) DO(reset_seq)]]"),
      ("Connection.kill", "IF(not self._task)[RETURN]ELSE[] IF(kind == KillKind.QUERY)[IF(not self._executing or self._kill is not None)[RETURN]ELSE[] IF(asyncio.current_task() is self._task)[RETURN]ELSE[]]ELSE[] SET(_kill=kind) DO(cancel)"),
      ("Connection.start", "SET(_task=asyncio.create_task(self._start())) TRY[AWAIT(_task)] FINALLY[SET(_task=None)]"),
      ("MysqlServer._client_connected_cb", "TRY[] EXCEPT(Exception)[W(err,drain) RETURN] TRY[CALL(add)] EXCEPT(TooManyConnections)[W(other,drain) RETURN] EXCEPT(Exception)[W(other,drain) RETURN] TRY[CALL(start)] FINALLY[DO(close) CALL(remove)]")] := by
  rfl

/-! ### the accept callback itself (`Mimic.Extracted.ServerCode`: `MysqlServer._client_connected_cb`, read off its AST by symbolic
execution over the outcomes of the session factory / `Connection(...)`, of `control.add` and of `connection.start()`) -/
section server
open Mimic.Extracted.ServerCode

/-- **An admitted connection is always released**: whether `connection.start()` returns or raises, the callback closes the
    writer and then removes exactly the id `control.add` returned — once, after `start`, nothing in between -/
theorem code_admitted_is_released (s : StartOut) :
    (client_connected_cb .ok .id s).1 = [.factory, .add, .set_id, .start, .writer_close, .remove .added_id] := by
  cases s <;> rfl

/-- `control.remove` is called only for a connection that `control.add` admitted, only with the id it returned, at most once -/
theorem code_remove_only_what_was_added (f : FactoryOut) (a : AddOut) (s : StartOut) :
    (∀ x, SEv.remove x ∈ (client_connected_cb f a s).1 → f = .ok ∧ a = .id ∧ x = .added_id) ∧
    ((client_connected_cb f a s).1.filter (fun e => match e with | .remove _ => true | _ => false)).length ≤ 1 := by
  cases f <;> cases a <;> cases s <;> simp [client_connected_cb]

/-- a client that is turned away (factory / constructor failure, full registry, failing registration) gets exactly one ERR —
    1040 for a full registry —, is never started, never registered-and-forgotten, and no exception leaves the callback -/
theorem code_refused_gets_one_err (f : FactoryOut) (a : AddOut) (s : StartOut) (h : f = .raises ∨ a ≠ .id) :
    SEv.start ∉ (client_connected_cb f a s).1 ∧ (client_connected_cb f a s).2 = false ∧
    ((client_connected_cb f a s).1.filter (fun e => match e with | .write_err _ => true | _ => false)).length = 1 ∧
    (f = .ok → a = .too_many → SEv.write_err (some 1040) ∈ (client_connected_cb f a s).1) := by
  cases f <;> cases a <;> cases s <;> simp_all [client_connected_cb]

/-- an exception leaves the callback only when `connection.start()` raised, and then after the release -/
theorem code_raises_only_from_start (f : FactoryOut) (a : AddOut) (s : StartOut) :
    (client_connected_cb f a s).2 = true ↔ f = .ok ∧ a = .id ∧ s = .raises := by
  cases f <;> cases a <;> cases s <;> simp [client_connected_cb]

end server

end MimicProps.C10
