import MimicProofs.Results
import MimicProofs.RowsCode
import Mimic.ResultsTables
import MimicProofs.Types
import MimicProofs.ResultsCode
import Mimic.Extracted.Protocol
import MimicProofs.HandlersCode
/-!
# C05 — Clients decode exactly the values the application returned (text and binary)

Encoders: `Mimic.Results` (model of `results.py` / `packets.make_*_row`); decoders: the specification side,
written from the protocol documentation.  Floats and character-set codecs are opaque byte strings here
(partial: `struct` float packing, `str(float)` and codecs are trusted; the theorems say those bytes reach the
client unchanged and correctly delimited).
-/
namespace MimicProps.C05
open Mimic.Results Mimic.Wire Mimic.Extracted.Results

/-- **NULL bitmap**: for every number of cells `n` (6, 7, 14, 15, … alike), offset 0 (parameters) or 2 (result
    rows) or any other, and every NULL pattern, bit `i` read back is the NULL flag of cell `i`, and the bitmap
    occupies `(n + 7 + offset) / 8` bytes. -/
theorem nullbitmap_roundtrip (offset : Nat) (nulls : List Bool) :
    (bitmap offset nulls).length = (nulls.length + 7 + offset) / 8 ∧
    ∀ i, i < nulls.length → isFlipped offset (bitmap offset nulls) i = nulls.getD i false :=
  ⟨bitmap_length offset nulls, fun i hi => isFlipped_bitmap offset nulls i hi⟩

/-- the offsets the code uses are the protocol's: 2 for binary result rows, 0 for parameter blocks -/
theorem bitmap_offsets : binaryRowBitmapOffset = 2 ∧ paramBitmapOffset = 0 := by decide

/-- **Binary protocol**: every row of well-formed values decodes, cell by cell, to the application's values
    (see `Mimic.Results.WF` for "well-formed": integers within the column type's range are enforced by the
    encoder itself; date fields fit their wire fields; |duration| < 2^32 days; strings shorter than 2^64). -/
theorem bin_row_roundtrip (cols : List BinEnc) (row : List Val) (pkt : Bytes)
    (hl : row.length = cols.length) (hwf : ∀ vc ∈ row.zip cols, WF vc.2 vc.1) (h : binRow cols row = some pkt) :
    binRowDec cols pkt = some ((row.zip cols).map (fun vc => view vc.2 vc.1)) :=
  binRow_roundtrip cols row pkt hl hwf h

/-- integers are carried by the binary encoders exactly when they fit the column type; nothing is clamped
    (in particular a TINY column carries 5 as 5 and -3 as -3, not as "true") -/
theorem int_cell_exact (k : Nat) (hk : 0 < k) (z : Int) (rest : Bytes) :
    (∀ enc, sInt k z = some enc → readSInt k (enc ++ rest) = some (z, rest)) ∧
    (sInt k z = none ↔ ¬ inSigned k z) := by
  refine ⟨fun enc h => binCell_int_roundtrip k hk z enc rest h, ?_⟩
  unfold sInt; split <;> simp_all

/-- **Durations, binary**: for every duration (negative, ≥ 24 h, with or without fractional seconds) below
    2^32 days the TIME value decodes to the same number of microseconds. -/
theorem duration_roundtrip_binary (us : Int) (rest : Bytes) (h : us.natAbs / 1000000 / 86400 < 2 ^ 32) :
    binCellDec .time (binDur us ++ rest) = some (.dur us, rest) :=
  binDur_roundtrip us rest h

/-- **Durations, text** `[-]HH:MM:SS[.ffffff]`: the numeric fields between the separators parse back (with
    their zero padding) to hours / minutes / seconds / microseconds that recombine to the duration; the sign
    is present iff the duration is negative.  (Tokenisation at ':' and '.' is immediate since the fields are
    digit strings; it is exercised by the oracle of the correspondence check.) -/
theorem duration_text_fields (us : Int) :
    let a := us.natAbs
    let secs := a / 1000000
    decToNat (pad 2 (secs / 3600)) = some (secs / 3600) ∧
    decToNat (pad 2 (secs % 3600 / 60)) = some (secs % 3600 / 60) ∧
    decToNat (pad 2 (secs % 60)) = some (secs % 60) ∧
    decToNat (pad 6 (a % 1000000)) = some (a % 1000000) ∧
    (((secs / 3600) * 60 + secs % 3600 / 60) * 60 + secs % 60) * 1000000 + a % 1000000 = a ∧
    secs % 3600 / 60 < 60 ∧ secs % 60 < 60 := by
  refine ⟨decToNat_pad _ _, decToNat_pad _ _, decToNat_pad _ _, decToNat_pad _ _, ?_, ?_, ?_⟩ <;> omega

/-- **Text protocol framing**: a row of cells (NULL or any byte string shorter than 2^64, whatever its length:
    0, 250, 251, 65535, 65536, 2^24 …) is decoded by a client into the same cells in the same order. -/
theorem text_row_roundtrip (cells : List (Option Bytes)) (h : ∀ c ∈ cells, ∀ b, c = some b → b.length < 2 ^ 63) :
    textRowDec cells.length
      ((cells.map (fun c => match c with | none => [0xFB] | some b => encStr b)).flatten) = some cells :=
  textRowDec_cells cells h

/-- length-encoded integers and strings at every size class -/
theorem lenenc_roundtrip (n : Nat) (h : n < 2 ^ 64) (rest : Bytes) : decLen (encLen n ++ rest) = some (n, rest) :=
  decLen_encLen n h rest

/-- integers in the text protocol: decimal text parses back to the integer (any size, either sign) -/
theorem int_text_roundtrip (z : Int) : decToInt (intToDec z) = some z := decToInt_intToDec z

/-- **Type inference never drops, duplicates or reorders a row**: whatever set of bare columns is to be
    inferred and however many leading rows have to be peeked at, the rows handed on are exactly the rows of
    the source, in order. -/
theorem infer_preserves_rows (todo : List Nat) (rows : List (List Val)) : afterInfer todo rows = rows := by
  unfold afterInfer
  have := peek_chain rows.length todo [] rows rfl
  simpa using this

/-- inference order of the extracted `_PY_TO_MYSQL_TYPE`: bool before int (TINY), datetime before date
    (DATETIME), and every inferable type has a supported encoder in both protocols -/
theorem infer_type_order :
    inferCode "bool" = 1 ∧ inferCode "int" = 8 ∧ inferCode "datetime" = 12 ∧ inferCode "date" = 10 ∧
    inferCode "str" = 254 ∧ inferCode "bytes" = 252 ∧ inferCode "float" = 5 ∧ inferCode "timedelta" = 11 ∧
    (∀ kv ∈ pyToMysql, binEnc kv.2 ≠ .unsupported ∧ textEnc kv.2 ≠ .unsupported) := by decide

/-- the encoder classes the tables select for the types of the property's quantifier -/
theorem encoder_tables :
    binEnc 1 = .tiny ∧ binEnc 2 = .short ∧ binEnc 3 = .long ∧ binEnc 8 = .longlong ∧ binEnc 9 = .long ∧
    binEnc 13 = .short ∧ binEnc 4 = .float ∧ binEnc 5 = .double ∧ binEnc 10 = .date ∧ binEnc 12 = .date ∧
    binEnc 7 = .date ∧ binEnc 11 = .time ∧ binEnc 15 = .str ∧ binEnc 253 = .str ∧ binEnc 254 = .str ∧
    binEnc 252 = .str ∧ textEnc 11 = .time ∧ textEnc 1 = .tiny ∧ textEnc 8 = .str ∧ textEnc 254 = .str := by decide

/-- non-vacuity: a 7-column row (bitmap boundary) with NULLs, a negative TINY, a 25 h duration and a string
    is well-formed, is encoded, and decodes to the expected client view. -/
example :
    let cols : List BinEnc := [.tiny, .longlong, .str, .time, .date, .short, .str]
    let row : List Val := [.int (-3), .null, .str [104, 105], .dur 90000000000, .date 2020 1 2, .int 7, .null]
    (binRow cols row).isSome = true ∧
    (binRow cols row).bind (binRowDec cols) =
      some [.int (-3), .null, .bytes [104, 105], .dur 90000000000, .temporal 2020 1 2 0 0 0 0, .int 7, .null] := by
  decide


/-! ### the code's own length-encoded integers and strings (translated from `types.py` on every run) -/

/-- `uint_len` / `str_len` / `read_uint_len` as translated from the source are the model's functions, for every input -/
theorem lenenc_is_code (n : Nat) (s r : Mimic.Wire.Bytes) :
    Mimic.Extracted.Types.uint_len n = Mimic.Wire.encLen n ∧ Mimic.Extracted.Types.str_len s = Mimic.Wire.encStr s ∧
    Mimic.Extracted.Types.read_uint_len r = Mimic.Wire.decLen r :=
  ⟨MimicProofs.Types.uint_len_eq n, MimicProofs.Types.str_len_eq s, MimicProofs.Types.read_uint_len_eq r⟩

/-- **code-level round trip**: what the translated encoders write, the translated readers read back -/
theorem code_lenenc_roundtrip (n : Nat) (h : n < 2 ^ 64) (rest : Mimic.Wire.Bytes) :
    Mimic.Extracted.Types.read_uint_len (Mimic.Extracted.Types.uint_len n ++ rest) = some (n, rest) :=
  MimicProofs.Types.code_lenenc_roundtrip n h rest

theorem code_str_roundtrip (s rest : Mimic.Wire.Bytes) (h : s.length < 2 ^ 63) :
    Mimic.Extracted.Types.read_str_len (Mimic.Extracted.Types.str_len s ++ rest) = some (s, rest) :=
  MimicProofs.Types.code_str_roundtrip s rest h

/-- every function of `types.py` is either translated or on the list of hand-modelled ones -/
theorem types_coverage :
    Mimic.Extracted.Types.skipped = ["peek", "read_double", "read_float", "read_str_null"] ∧ Mimic.Extracted.Types.translated.length = 25 := by decide

/-- **the temporal encoders of `results.py`, translated from the source on every run, are the model's**:
    `_binary_encode_date` on datetime and date values and `_binary_encode_timedelta`, for all field values -/
theorem temporal_encoders_are_code (y mo d h mi s us : Nat) (dur : Int) :
    Mimic.Extracted.ResultsCode.binary_encode_datetime y mo d h mi s us = binDate y mo d h mi s us ∧
    Mimic.Extracted.ResultsCode.binary_encode_date y mo d = binDate y mo d 0 0 0 0 ∧
    Mimic.Extracted.ResultsCode.binary_encode_timedelta (if dur < 0 then 1 else 0) (dur.natAbs / 1000000 / 86400)
      (dur.natAbs / 1000000 % 86400) (dur.natAbs % 1000000) = binDur dur :=
  ⟨MimicProofs.ResultsCode.binary_encode_datetime_eq y mo d h mi s us, MimicProofs.ResultsCode.binary_encode_date_eq y mo d,
   MimicProofs.ResultsCode.binary_encode_timedelta_eq dur⟩


/-! ### the protocol's numeric constants (extracted from `types.py` on every run) -/

/-- **Column type codes are the protocol's**: every member of `ColumnType` has the value the MySQL protocol assigns to
    it — an application that declares a column of any of these types gets that code in the column definition -/
theorem column_type_codes :
    Mimic.Extracted.Protocol.columnTypes =
      [("DECIMAL", 0), ("TINY", 1), ("SHORT", 2), ("LONG", 3), ("FLOAT", 4), ("DOUBLE", 5), ("NULL", 6), ("TIMESTAMP", 7), ("LONGLONG", 8),
       ("INT24", 9), ("DATE", 10), ("TIME", 11), ("DATETIME", 12), ("YEAR", 13), ("NEWDATE", 14), ("VARCHAR", 15), ("BIT", 16),
       ("TIMESTAMP2", 17), ("DATETIME2", 18), ("TIME2", 19), ("TYPED_ARRAY", 20), ("INVALID", 243), ("BOOL", 244), ("JSON", 245),
       ("NEWDECIMAL", 246), ("ENUM", 247), ("SET", 248), ("TINY_BLOB", 249), ("MEDIUM_BLOB", 250), ("LONG_BLOB", 251), ("BLOB", 252),
       ("VAR_STRING", 253), ("STRING", 254), ("GEOMETRY", 255)] := by decide

/-! ### the row builders themselves (`Mimic.Extracted.RowsCode`, regenerated from `/repo` by `harness/pytrans2.py`) -/

/-- **`make_binary_resultrow` of `packets.py` — with `NullBitmap.new`, `flip` and `__bytes__` of `results.py` — translated,
    builds the model's binary row** for every row and every encoder table: header 0, the NULL bitmap with offset 2 (the
    bits set by `flip`'s byte-wise OR are exactly the NULL cells), the encoded non-NULL cells in column order.  Every
    theorem of this file about `binRow` (NULL-bitmap and binary-row round trips) is therefore about the code. -/
theorem binary_row_is_code (cols : List Mimic.Results.BinEnc) (row : List Mimic.Results.Val) (h : row.length ≤ cols.length) :
    Mimic.Extracted.RowsCode.make_binary_resultrow (S := Unit) (fun c w => Mimic.Results.binCell c w) (row.map MimicProofs.RowsCode.toOpt) cols
      = Mimic.Results.binRow cols row :=
  MimicProofs.RowsCode.binRow_is_code cols row h

/-- the same for the text protocol: `make_text_resultset_row`, translated, is the model's `textRow` -/
theorem text_row_is_code (cols : List Mimic.Results.TextEnc) (row : List Mimic.Results.Val) :
    Mimic.Extracted.RowsCode.make_text_resultset_row (fun c w => Mimic.Results.textCell c w) (row.map MimicProofs.RowsCode.toOpt) cols
      = Mimic.Results.textRow cols row :=
  MimicProofs.RowsCode.textRow_is_code cols row

/-- **code level, for any encoders**: the bitmap the translated `make_binary_resultrow` writes is the model's bitmap of the
    row's NULL positions (offset 2), whatever the cells' encoders are -/
theorem code_binary_row_layout {C W : Type} (enc : C → W → Option Mimic.Py.Bytes) (row : List (Option W)) (cols : List C)
    (h : row.length ≤ cols.length) :
    Mimic.Extracted.RowsCode.make_binary_resultrow (S := Unit) enc row cols
      = (Mimic.Results.optAll (MimicProofs.RowsCode.cellsOf enc (row.zip cols))).map
          (fun cs => (0 : UInt8) :: (Mimic.Results.bitmap 2 (row.map Option.isNone) ++ cs.flatten)) :=
  MimicProofs.RowsCode.make_binary_resultrow_eq enc row cols h

/-- non-vacuity at code level: a row (7, NULL, "ab") through the translated builder with toy encoders -/
example : Mimic.Extracted.RowsCode.make_binary_resultrow (S := Unit) (C := Unit) (W := Mimic.Py.Bytes) (fun _ w => some w)
    [some [7], none, some [97, 98]] [(), (), ()] = some [0, 8, 7, 97, 98] := by decide +kernel

/-! ### every row reaches the wire exactly once and in order (translated handlers, `Mimic.Extracted.HandlersCode`) -/
section handlers
open Mimic.Extracted.HandlersCode MimicProofs.HandlersCode
variable {S : Type} [DecidableEq S]

/-- **COM_QUERY delivers the application's rows exactly once, in order, and counts them**: for every result set whose row
    source does not raise, the row packets written by `handle_query` (translated, `text_resultset` inlined) between the
    metadata and the terminator are exactly the packets of the source, in its order, and the terminator's affected-rows
    counter is their number. -/
theorem code_query_rows_in_order (E : Mimic.Py.Env S) (coldef : Nat → Nat → Mimic.Py.Bytes) (app : S → Option (ResultSet S)) (c : Connection S)
    (data : Mimic.Py.Bytes) (q : Mimic.Extracted.ParsersCode.ComQuery S) (rs : ResultSet S)
    (hp : Mimic.Extracted.ParsersCode.parse_com_query E c.capabilities c.client_charset data = some q) (ha : app q.sql = some rs)
    (hne : rs.columns.isEmpty = false) (hb : rs.rows.boom = false) :
    ∃ (c' : Connection S) (pre : List (Ev S)) (l w2 fl : Nat), handle_query E coldef app c data = .ok c' ∧
      c'.out = c.out ++ pre ++ rs.rows.rows.map (fun p => Ev.write p false)
                 ++ [Ev.write (ok_or_eof c rs.rows.rows.length l w2 fl) false, Ev.drain] := by
  have h := handle_query_spec E coldef app c data
  simp only [hp, ha, hne, Bool.false_eq_true, if_false, hb] at h
  obtain ⟨w, f, l, w2, fl, h⟩ := h
  exact ⟨_, queryMeta coldef c rs ++ (if deprecate_eof c then [] else [Ev.write (eof c w f) false]), l, w2, fl, h, by simp only [List.append_assoc]⟩

/-- the same for COM_STMT_EXECUTE without cursor (binary protocol: every packet drained) -/
theorem code_execute_rows_in_order (coldef : Nat → Nat → Mimic.Py.Bytes) (parse : Connection S → Mimic.Py.Bytes → Option (ComStmtExecute S))
    (app : S → Option (ResultSet S)) (c : Connection S) (data : Mimic.Py.Bytes) (x : ComStmtExecute S) (rs : ResultSet S)
    (hp : parse c data = some x) (ha : app x.sql = some rs) (hne : rs.columns.isEmpty = false) (hu : x.use_cursor = false)
    (hb : rs.rows.boom = false) :
    ∃ (c' : Connection S) (pre : List (Ev S)) (a l w2 fl : Nat), handle_stmt_execute coldef parse app c data = .ok c' ∧
      c'.out = c.out ++ pre ++ rs.rows.rows.map (fun p => Ev.write p true) ++ [Ev.write (ok_or_eof c a l w2 fl) true] := by
  have h := handle_stmt_execute_spec coldef parse app c data
  simp only [hp, ha, hne, hu, Bool.false_eq_true, if_false, hb] at h
  obtain ⟨w, f, a, l, w2, fl, h⟩ := h
  exact ⟨_, execMeta coldef c rs ++ (if deprecate_eof c then [] else [Ev.write (eof c w f) true]), a, l, w2, fl, h, by simp only [List.append_assoc]⟩

end handlers

end MimicProps.C05
