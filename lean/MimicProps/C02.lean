import MimicProofs.Auth
import MimicProofs.UtilsCode
import MimicProofs.ParsersCode
import Mimic.Extracted.Auth
/-!
# C02 — A password proof is accepted iff it fits this connection's nonce and secret

`H` is an arbitrary hash with 20-byte output (SHA-1 in the code; `Mimic.Sha1.sha1` is the executable instance
compared with `hashlib`).  Second-preimage resistance appears only as an explicit hypothesis of `native_sound_sha`.
Partial: "fresh per connection" is a statement about `random.SystemRandom`; the model proves that every issued
nonce consists of 20 *new* draws (`native_start_fresh`), not that draws do not repeat.
-/
namespace MimicProps.C02
open Mimic.Auth Mimic.Wire Mimic.Extracted.Auth

variable (H : Bytes → Bytes)

/-- hex text of a byte string as `create_auth_string` produces it (lower case, no separators) -/
def hexDigit (n : Nat) : Char := if n < 10 then Char.ofNat (48 + n) else Char.ofNat (87 + n)
def hexOf : Bytes → List Char
  | [] => []
  | b :: bs => hexDigit (b.toNat / 16) :: hexDigit (b.toNat % 16) :: hexOf bs

theorem hexVal_hexDigit (n : Nat) (h : n < 16) : hexVal (hexDigit n) = some n ∧ isWs (hexDigit n) = false := by
  have : n = 0 ∨ n = 1 ∨ n = 2 ∨ n = 3 ∨ n = 4 ∨ n = 5 ∨ n = 6 ∨ n = 7 ∨ n = 8 ∨ n = 9 ∨ n = 10 ∨ n = 11 ∨
      n = 12 ∨ n = 13 ∨ n = 14 ∨ n = 15 := by omega
  rcases this with rfl | rfl | rfl | rfl | rfl | rfl | rfl | rfl | rfl | rfl | rfl | rfl | rfl | rfl | rfl | rfl <;>
    decide

/-- `bytes.fromhex(x.hex()) = x` -/
theorem fromhex_hexOf (b : Bytes) : fromhex (hexOf b) = some b := by
  induction b with
  | nil => rfl
  | cons x xs ih =>
    have h1 := hexVal_hexDigit (x.toNat / 16) (by have := x.toNat_lt; omega)
    have h2 := hexVal_hexDigit (x.toNat % 16) (by omega)
    simp only [hexOf, fromhex, h1.2, Bool.false_eq_true, if_false, h1.1, h2.1, ih, Option.map_some]
    congr 2
    have : 16 * (x.toNat / 16) + x.toNat % 16 = x.toNat := by omega
    rw [this]; simp

/-- **Completeness**: the 20-byte scramble of the account's current (or secondary) password under the nonce used
    for verification is accepted — also when followed by junk (only the first 20 bytes count). -/
theorem native_complete (hH : ∀ x, (H x).length = 20) (u : User) (pw nonce junk : Bytes)
    (hu : u.auth = some (hexOf (H (H pw))) ∨ u.old = some (hexOf (H (H pw)))) :
    passwordMatches H u (scramble H pw nonce ++ junk) nonce = true := by
  have key : verifyScramble H (some (hexOf (H (H pw)))) (scramble H pw nonce ++ junk) nonce = true := by
    simp only [verifyScramble, Option.getD_some, fromhex_hexOf, scramble]
    have h1 : (H pw).length = 20 := hH _
    have h2 : (H (nonce ++ H (H pw))).length = 20 := hH _
    have hl : (xorb (H pw) (H (nonce ++ H (H pw)))).length = (H (nonce ++ H (H pw))).length := by
      simp [xorb_length, h1, h2]
    rw [xorb_append_junk _ _ _ hl, xorb_cancel _ _ (by omega)]
    simp
  unfold passwordMatches
  rcases hu with h | h <;> simp [h, key]

/-- an account without password accepts the empty response (and `empty_password_quickpath` needs both) -/
theorem empty_password (u : User) (nonce : Bytes) (h : u.auth = none ∨ u.auth = some []) :
    passwordMatches H u [] nonce = true := by
  unfold passwordMatches; rcases h with h | h <;> simp [h]

/-- **Soundness**: acceptance means the response is empty for a password-less account, or its first 20 bytes are
    `p XOR H(nonce ++ stored)` for some preimage `p` of a stored hash of this account — under *this* nonce. -/
theorem native_sound (hH : ∀ x, (H x).length = 20) (u : User) (scr nonce : Bytes)
    (h : passwordMatches H u scr nonce = true) :
    (scr = [] ∧ (u.auth.getD []) = []) ∨
    ∃ stored, (fromhex (u.auth.getD []) = some stored ∨ fromhex (u.old.getD []) = some stored) ∧
      ∃ p, H p = stored ∧ p = xorb (scr.take 20) (H (nonce ++ stored)) := by
  unfold passwordMatches at h
  simp only [Bool.or_eq_true, Bool.and_eq_true, List.isEmpty_iff] at h
  have vs : ∀ s, verifyScramble H s scr nonce = true →
      ∃ stored, fromhex (s.getD []) = some stored ∧ ∃ p, H p = stored ∧ p = xorb (scr.take 20) (H (nonce ++ stored)) := by
    intro s hv
    unfold verifyScramble at hv
    cases hf : fromhex (s.getD []) with
    | none => simp [hf] at hv
    | some st =>
      simp only [hf, beq_iff_eq] at hv
      refine ⟨st, rfl, xorb scr (H (nonce ++ st)), hv, ?_⟩
      have := xorb_take scr (H (nonce ++ st))
      rw [hH] at this; exact this
  rcases h with (h | h) | h
  · exact Or.inl h
  · obtain ⟨st, h1, h2⟩ := vs _ h; exact Or.inr ⟨st, Or.inl h1, h2⟩
  · obtain ⟨st, h1, h2⟩ := vs _ h; exact Or.inr ⟨st, Or.inr h1, h2⟩

/-- under second-preimage resistance for the stored hash (explicit hypothesis, not an axiom): an accepted
    non-empty response has at least 20 bytes and its first 20 bytes ARE the scramble of the password whose double
    hash is stored, under this nonce -/
theorem native_sound_sha (hH : ∀ x, (H x).length = 20) (pw scr nonce : Bytes)
    (hres : ∀ p, H p = H (H pw) → p = H pw)
    (hv : verifyScramble H (some (hexOf (H (H pw)))) scr nonce = true) :
    scr.take 20 = scramble H pw nonce := by
  simp only [verifyScramble, Option.getD_some, fromhex_hexOf, beq_iff_eq] at hv
  have hp := hres _ hv
  have ht := xorb_take scr (H (nonce ++ H (H pw)))
  rw [hH] at ht
  rw [ht] at hp
  -- scr.take 20 has length 20 (else the xor would be shorter than H pw)
  have hlen : (scr.take 20).length = 20 := by
    have := congrArg List.length hp
    rw [xorb_length, hH, hH] at this
    have := List.length_take_le 20 scr
    omega
  unfold scramble
  have hc := xorb_cancel (scr.take 20) (H (nonce ++ H (H pw))) (by rw [hH]; omega)
  rw [hp] at hc
  exact hc.symm

/-- **Nonces are well formed**: for every 20 draws the nonce has 20 bytes, all from the extracted alphabet, none
    of them NUL — so the greeting's NUL-terminated fields and `rstrip(b"\0")` recover exactly the nonce. -/
theorem nonce_wellformed (draws : List Nat) (h : draws.length = nativeNonceLength) :
    (nonceOf safeNonceChars draws).length = 20 ∧ (∀ b ∈ nonceOf safeNonceChars draws, b ≠ 0) ∧
    rstrip0 (nonceOf safeNonceChars draws ++ [0]) = nonceOf safeNonceChars draws := by
  have hmem := nonceOf_mem safeNonceChars (by decide) draws
  have hnz : ∀ b ∈ nonceOf safeNonceChars draws, b ≠ 0 := by
    intro b hb
    have := hmem b hb
    have hall : ∀ x ∈ safeNonceChars, x ≠ 0 := by decide
    exact hall b this
  exact ⟨by rw [nonceOf_length, h]; rfl, hnz, rstrip0_snoc _ hnz⟩

/-- **A fresh challenge uses 20 new draws and is remembered by the generator** (greeting or auth-switch /
    more-data): what is verified later is the nonce that was just sent. -/
theorem native_start_fresh (α : Bytes) (p : Plugin) (hp : p.kind = .native) (draws : List Nat) :
    start H α p none draws = (.more (nonceOf α draws ++ [0]), .nativeWait (nonceOf α draws), true) := by
  simp [start, hp]

theorem native_send_uses_issued_nonce (p : Plugin) (nonce : Bytes) (i : Info) :
    send H p (.nativeWait nonce) i =
      ((if passwordMatches H i.user i.data nonce then .success i.user.name else .forbidden), .done) := by
  simp [send]

/-- COM_CHANGE_USER reusing the handshake nonce: verification uses the bytes this connection put in its own
    greeting (stripped of the terminator), and draws nothing new -/
theorem native_reuses_handshake_nonce (α : Bytes) (p : Plugin) (hp : p.kind = .native) (i : Info) (draws : List Nat)
    (h1 : i.hsPlugin = p.name) (h2 : i.hsData.getD [] ≠ []) :
    start H α p (some i) draws =
      ((if passwordMatches H i.user i.data (rstrip0 (i.hsData.getD [])) then .success i.user.name else .forbidden),
        .done, false) := by
  have : (i.hsData.getD []).isEmpty = false := by
    cases h : i.hsData.getD [] with
    | nil => exact absurd h h2
    | cons _ _ => rfl
  simp [start, hp, h1, this]

/-- **The clear-password plugin accepts exactly when the application's check accepts** the transmitted password -/
theorem clear_accepts_iff_check (acc : List (String × Bytes)) (i : Info) :
    clearDecide acc i = .success i.username ↔
      acc.any (fun up => up.1 == i.username && up.2 == (readNul i.data).1) = true := by
  unfold clearDecide; split <;> simp_all

/-- the password the clear-password plugin hands to `check` is what **the translated `read_str_null`** (`types.py`,
    `Mimic.Extracted.ParsersCode`) reads from the transmitted bytes: everything before the first NUL, or everything when
    the client sent no terminator (end of input terminates the string) — never one byte more or less -/
theorem clear_password_decoding_is_code (data : Bytes) :
    Mimic.Extracted.ParsersCode.read_str_null data = some (readNul data) :=
  MimicProofs.ParsersCode.read_str_null_eq data

theorem clear_password_unterminated (data : Bytes) (h : ∀ b ∈ data, b ≠ 0) : (readNul data).1 = data := by
  induction data with
  | nil => rfl
  | cons b rest ih =>
    have hb : b ≠ 0 := h b (List.mem_cons_self ..)
    simp [readNul, hb, ih (fun x hx => h x (List.mem_cons_of_mem _ hx))]

theorem clear_password_terminated (pw rest : Bytes) (h : ∀ b ∈ pw, b ≠ 0) : (readNul (pw ++ 0 :: rest)).1 = pw := by
  induction pw with
  | nil => simp [readNul]
  | cons b more ih =>
    have hb : b ≠ 0 := h b (List.mem_cons_self ..)
    simp [readNul, hb, ih (fun x hx => h x (List.mem_cons_of_mem _ hx))]

/-- **The no-login plugin never accepts**, on any route and whatever the client sends -/
theorem nologin_never_accepts (α : Bytes) (p : Plugin) (hp : p.kind = .nologin) (info : Option Info) (draws : List Nat)
    (i : Info) (n : String) :
    (start H α p info draws).1 ≠ .success n ∧ (send H p (start H α p info draws).2.1 i).1 ≠ .success n := by
  cases info <;> simp [start, send, hp]

/-- **After success the session's user is the identity the plugin vouched for**: the more-data loop ends in
    `authenticated n` only by writing OK as its last packet after a `success n` decision, and writes no OK
    otherwise. -/
theorem session_user_is_vouched (p : Plugin) (info : Info) (fuel : Nat) (d : Decision) (st : PState)
    (replies : List Bytes) (outs : List AOut) (res : ARes) (h : moreLoop H p info fuel d st replies = (outs, res)) :
    (∀ n, res = .authenticated n → outs.getLast? = some .ok) ∧ ((∀ n, res ≠ .authenticated n) → AOut.ok ∉ outs) :=
  ⟨fun n hn => (moreLoop_authenticated H p info fuel d st replies outs n (hn ▸ h)).1,
   fun hn => moreLoop_no_ok H p info fuel d st replies outs res h hn⟩

/-- non-vacuity: a concrete account and exchange with the executable SHA-1 would be evaluated by the driver; here
    the abstract statement is instantiated with a constant 20-byte "hash" to show the hypotheses are consistent -/
example : (∀ x : Bytes, ((fun _ => List.replicate 20 (7 : UInt8)) x).length = 20) := by intro x; simp

/-! ### the code itself (`Mimic.Extracted.UtilsCode`, regenerated from `/repo` by `harness/pytrans2.py`) -/

/-- **`utils.xor` — the XOR through Python integers (`int.from_bytes`, `^`, `to_bytes`) — is the model's `xorb`**: for all
    operands the byte-wise XOR of both cut to the shorter length, and it never raises (the `to_bytes` it ends with cannot
    overflow). Every theorem of this file about `xorb` is therefore about the code's `xor`. -/
theorem xor_is_code (a b : Bytes) : Mimic.Extracted.UtilsCode.xor a b = some (xorb a b) :=
  MimicProofs.UtilsCode.xor_eq a b

/-- non-vacuity at code level -/
example : Mimic.Extracted.UtilsCode.xor [0x0f, 0xf0, 0xaa] [0xff, 0x0f] = some [0xf0, 0xff] := by decide +kernel

end MimicProps.C02
