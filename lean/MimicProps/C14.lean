import Mimic.Variables
import Mimic.Extracted.Variables
import Mimic.Extracted.VariablesCode
import MimicProofs.Variables
/-!
# C14 — System variables form a typed, scoped store that clients cannot corrupt

The schema, the usable character sets and the shape of the SET_VAR middleware are extracted from the code on every
run.  `sch` / `cs` below are arbitrary; the `_code` corollaries instantiate them with the extracted ones.

* store refinement: `get_after_set`, `set_frame`, `default_restores`, `null_restores`, `unknown_is_error`, `list_complete_sorted`;
* `readonly_immutable`: no SET statement and no hinted statement changes a non-dynamic variable;
* `hinted_restores`: for every hint list (duplicates, unknown and read-only names, wrong-typed values) and every body
  (succeeding or raising) every variable reads the same after the statement as before it;
* `accepted_timezone_usable` / `accepted_charset_usable`: whatever was accepted, the values later statements evaluate
  (`parse_timezone(time_zone)`, the character sets) stay defined.
-/
namespace MimicProps.C14
open Mimic.Variables MimicProofs.Variables

/-- the SET_VAR middleware assigns inside `try` and restores in `finally`, with no handler that could swallow an error -/
theorem hint_shape :
    Mimic.Extracted.Variables.hintTry = "for k, v in assignments.items():\n    self.variables.set(k, v) ; return await q.next()" ∧
    Mimic.Extracted.Variables.hintFinally = "for k, v in orig.items():\n    self.variables.set(k, v)" ∧
    Mimic.Extracted.Variables.hintHandlers = 0 := by decide

/-! ### the store refines a map from names to values -/

/-- **A read returns the value most recently assigned**, coerced to the variable's type. -/
theorem get_after_set (sch : List Schema) (cs : List String) (force : Bool) (st st' : Store) (name : String) (v : V)
    (hv : v ≠ .none) (h : set sch cs force st name (.val v) = .ok st') :
    ∃ s w, findSchema sch (lower name) = some s ∧ coerce cs s.ty v = .ok w ∧ get sch st' name = .ok w := by
  unfold Mimic.Variables.set at h
  split at h
  · cases h
  · rename_i s hs
    split at h
    · cases h
    · cases v with
      | none => exact absurd rfl hv
      | int i =>
        simp only at h
        split at h
        · rename_i w hw; cases h; exact ⟨s, w, hs, hw, by rw [get_put]; simp⟩
        · cases h
      | bool b =>
        simp only at h
        split at h
        · rename_i w hw; cases h; exact ⟨s, w, hs, hw, by rw [get_put]; simp⟩
        · cases h
      | str x =>
        simp only at h
        split at h
        · rename_i w hw; cases h; exact ⟨s, w, hs, hw, by rw [get_put]; simp⟩
        · cases h
      | flt t z r =>
        simp only at h
        split at h
        · rename_i w hw; cases h; exact ⟨s, w, hs, hw, by rw [get_put]; simp⟩
        · cases h

/-- an assignment changes no other variable -/
theorem set_frame (sch : List Schema) (cs : List String) (force : Bool) (st st' : Store) (name other : String) (a : Arg)
    (hd : DefaultsOk sch cs) (h : set sch cs force st name a = .ok st') (hne : lower other ≠ lower name) :
    get sch st' other = get sch st other := by
  obtain ⟨s, w, _, _, rfl, _⟩ := set_ok hd h
  rw [get_put]; simp [hne]

/-- **DEFAULT restores the default** -/
theorem default_restores (sch : List Schema) (cs : List String) (st st' : Store) (name : String) (s : Schema)
    (hs : findSchema sch (lower name) = some s) (h : set sch cs false st name .dflt = .ok st') : get sch st' name = .ok s.dflt := by
  unfold Mimic.Variables.set at h
  rw [hs] at h
  simp only at h
  split at h
  · cases h
  · cases h; rw [get_put]; simp

/-- **NULL restores the default** -/
theorem null_restores (sch : List Schema) (cs : List String) (st st' : Store) (name : String) (s : Schema)
    (hs : findSchema sch (lower name) = some s) (h : set sch cs false st name (.val .none) = .ok st') : get sch st' name = .ok s.dflt := by
  unfold Mimic.Variables.set at h
  rw [hs] at h
  simp only at h
  split at h
  · cases h
  · cases h; rw [get_put]; simp

/-- **Unknown names are errors**, for reads and for assignments -/
theorem unknown_is_error (sch : List Schema) (cs : List String) (force : Bool) (st : Store) (name : String) (a : Arg)
    (hu : findSchema sch (lower name) = none) (hw : WT sch cs st) :
    get sch st name = .error .unknown ∧ set sch cs force st name a = .error .unknown := by
  constructor
  · unfold Mimic.Variables.get
    cases hl : st.lookup (lower name) with
    | none => simp [hu]
    | some v => obtain ⟨s, hs, _⟩ := hw _ _ hl; rw [hu] at hs; cases hs
  · unfold Mimic.Variables.set; rw [hu]

/-- an untouched variable reads as its default -/
theorem get_default (sch : List Schema) (name : String) (s : Schema) (hs : findSchema sch (lower name) = some s) :
    get sch [] name = .ok s.dflt := by
  unfold Mimic.Variables.get; simp [List.lookup, hs]

/-- **`Variables.set` / `get` / `list` as translated from the source are the model's functions**, for every schema,
    store, name, value and `force` (the five type callables are modelled by `coerce`) -/
theorem store_is_code (sch : List Schema) (cs : List String) (st : Store) (name : String) (a : Arg) (force : Bool) (names : List String) :
    Mimic.Extracted.VariablesCode.set sch cs st name a force = set sch cs force st name a ∧
    Mimic.Extracted.VariablesCode.get sch st name = get sch st name ∧
    Mimic.Extracted.VariablesCode.list sch st names = list sch st names := by
  have hget : ∀ n, Mimic.Extracted.VariablesCode.get sch st n = get sch st n := by
    intro n
    simp only [Mimic.Extracted.VariablesCode.get, Mimic.Variables.get, Mimic.Extracted.VariablesCode.get_schema]
    cases h1 : st.lookup (lower n) with
    | some v => rfl
    | none =>
      cases h2 : findSchema sch (lower n) <;> rfl
  refine ⟨?_, hget name, ?_⟩
  · simp only [Mimic.Extracted.VariablesCode.set, Mimic.Variables.set, Mimic.Extracted.VariablesCode.get_schema]
    cases hs : findSchema sch (lower name) with
    | none => rfl
    | some s =>
      simp only
      by_cases hg : (!s.dynamic && !force) = true
      · simp [hg]
      · simp only [hg, Bool.false_eq_true, if_false]
        cases a with
        | dflt => rfl
        | complex => rfl
        | val v => cases v <;> rfl
  · unfold Mimic.Extracted.VariablesCode.list Mimic.Variables.list
    congr 1
    funext n
    rw [hget n]
    cases Mimic.Variables.get sch st n <;> rfl

/-! ### read-only variables -/

theorem setAll_frame (sch : List Schema) (cs : List String) (hd : DefaultsOk sch cs) (m : String) (s : Schema)
    (hs : findSchema sch (lower m) = some s) (hro : s.dynamic = false) :
    ∀ (l : List (String × Arg)) (st : Store), get sch (setAll sch cs st l).1 m = get sch st m := by
  intro l
  induction l with
  | nil => intro st; rfl
  | cons p rest ih =>
    intro st
    obtain ⟨n, a⟩ := p
    unfold setAll
    split
    · rename_i st' h
      rw [ih st']
      obtain ⟨s', w, hs', hdyn, rfl, _⟩ := set_ok hd h
      rw [get_put]
      by_cases hk : lower m = lower n
      · rw [hk] at hs; rw [hs] at hs'; cases hs'; simp [hro] at hdyn
      · simp [hk]
    · rfl

theorem setItem_frame (sch : List Schema) (cs : List String) (dc : String → Option String) (hd : DefaultsOk sch cs) (m : String) (s : Schema)
    (hs : findSchema sch (lower m) = some s) (hro : s.dynamic = false) (st : Store) (it : Item) :
    get sch (setItem sch cs dc st it).1 m = get sch st m := by
  cases it with
  | var sc n a =>
    cases sc <;> cases a <;> simp only [setItem] <;> first | rfl | exact setAll_frame sch cs hd m s hs hro _ st
  | varRef n r =>
    simp only [setItem]
    split
    · exact setAll_frame sch cs hd m s hs hro _ st
    · rfl
  | names c coll =>
    cases c with
    | none => exact setAll_frame sch cs hd m s hs hro _ st
    | some c =>
      simp only [setItem]
      split
      · rfl
      · exact setAll_frame sch cs hd m s hs hro _ st
  | charset c =>
    cases c with
    | none => exact setAll_frame sch cs hd m s hs hro _ st
    | some c =>
      simp only [setItem]
      split
      · exact setAll_frame sch cs hd m s hs hro _ st
      · rfl
  | transaction chars => exact setAll_frame sch cs hd m s hs hro _ st
  | transactionUnknown => rfl
  | unsupported => rfl

/-- **Read-only variables cannot be changed by any SET statement**: for every item list in every spelling the model
    distinguishes, a non-dynamic variable reads the same afterwards. -/
theorem readonly_immutable (sch : List Schema) (cs : List String) (dc : String → Option String) (hd : DefaultsOk sch cs) (m : String) (s : Schema)
    (hs : findSchema sch (lower m) = some s) (hro : s.dynamic = false) :
    ∀ (items : List Item) (st : Store), get sch (setStmt sch cs dc st items).1 m = get sch st m := by
  intro items
  induction items with
  | nil => intro st; rfl
  | cons it rest ih =>
    intro st
    unfold setStmt
    have := setItem_frame sch cs dc hd m s hs hro st it
    split
    · rename_i st' heq; rw [ih st']; rw [heq] at this; exact this
    · rename_i st' e heq; rw [heq] at this; exact this

/-- the same for a statement whose right-hand sides refer to other variables (`SET a = @@b`): references are resolved
    before anything is assigned, and then it is an ordinary SET statement -/
theorem readonly_immutable_refs (sch : List Schema) (cs : List String) (dc : String → Option String) (hd : DefaultsOk sch cs) (m : String) (s : Schema)
    (hs : findSchema sch (lower m) = some s) (hro : s.dynamic = false) (items : List Item) (st : Store) :
    get sch (setStmtR sch cs dc st items).1 m = get sch st m := by
  unfold setStmtR
  split
  · exact readonly_immutable sch cs dc hd m s hs hro _ st
  · rfl

/-! ### SET_VAR hints restore every variable -/

/-- what the restore loop writes are originals: afterwards every variable reads as before the loop or as originally -/
theorem restore_pointwise (sch : List Schema) (cs : List String) (st0 : Store) (hd : DefaultsOk sch cs) (hw0 : WT sch cs st0) :
    ∀ (orig : List (String × V)) (st : Store), (∀ p ∈ orig, get sch st0 p.1 = .ok p.2) →
      ∀ m, get sch (restore sch cs st orig).1 m = get sch st m ∨ get sch (restore sch cs st orig).1 m = get sch st0 m := by
  intro orig
  induction orig with
  | nil => intro st _ m; left; rfl
  | cons p rest ih =>
    intro st ho m
    obtain ⟨n, v⟩ := p
    have hv : get sch st0 n = .ok v := ho (n, v) (by simp)
    unfold restore
    split
    · rename_i st' h
      obtain ⟨s, w, hs, _, _, _⟩ := set_ok hd h
      have hg := get_good hd hw0 hs hv
      rcases set_val_fail_or (st := st) hs hg with h2 | ⟨e, h2⟩
      · rw [h2] at h; cases h
        rcases ih (put st (lower n) v) (fun q hq => ho q (by simp [hq])) m with h3 | h3
        · rw [h3, get_put]
          by_cases hk : lower m = lower n
          · right; simp only [hk, if_true]
            have : get sch st0 m = get sch st0 n := by unfold Mimic.Variables.get; rw [hk]
            rw [this, hv]
          · left; simp [hk]
        · right; exact h3
      · rw [h2] at h; cases h
    · left; rfl

theorem saveAll_cons {sch : List Schema} {st : Store} {n : String} {a : Arg} {rest : List (String × Arg)} {orig : List (String × V)}
    (h : saveAll sch st ((n, a) :: rest) = some orig) :
    ∃ v orest, orig = (n, v) :: orest ∧ get sch st n = .ok v ∧ saveAll sch st rest = some orest := by
  unfold saveAll at h
  split at h
  · rename_i v r hg hr; cases h; exact ⟨v, r, rfl, hg, hr⟩
  · cases h

theorem saveAll_orig {sch : List Schema} {st : Store} : ∀ {l : List (String × Arg)} {orig : List (String × V)},
    saveAll sch st l = some orig → ∀ p ∈ orig, get sch st p.1 = .ok p.2 := by
  intro l
  induction l with
  | nil => intro orig h p hp; simp [saveAll] at h; subst h; simp at hp
  | cons q rest ih =>
    intro orig h p hp
    obtain ⟨n, a⟩ := q
    obtain ⟨v, orest, rfl, hg, hr⟩ := saveAll_cons h
    rcases List.mem_cons.mp hp with rfl | hp'
    · exact hg
    · exact ih hr p hp'

/-- the lock-step lemma: assignments then restore, started from a store that agrees with the original outside `T` -/
theorem assign_restore (sch : List Schema) (cs : List String) (st0 : Store) (hd : DefaultsOk sch cs) (hw0 : WT sch cs st0) :
    ∀ (assigns : List (String × Arg)) (orig : List (String × V)) (st : Store) (T : List String),
      saveAll sch st0 assigns = some orig →
      (∀ m, lower m ∉ T → get sch st m = get sch st0 m) →
      ∀ s1' : Store, (∀ m, get sch s1' m = get sch (setAll sch cs st assigns).1 m ∨ get sch s1' m = get sch st0 m) →
      ∀ m, lower m ∉ T → get sch (restore sch cs s1' orig).1 m = get sch st0 m := by
  intro assigns
  induction assigns with
  | nil =>
    intro orig st T hs hT s1' h1 m hm
    simp [saveAll] at hs; subst hs
    simp only [restore]
    rcases h1 m with h | h
    · rw [h]; simp only [setAll]; exact hT m hm
    · exact h
  | cons p rest ih =>
    intro orig st T hs hT s1' h1 m hm
    obtain ⟨n, a⟩ := p
    obtain ⟨v, orest, rfl, hv, hrest⟩ := saveAll_cons hs
    have horig := saveAll_orig hrest
    -- the schema entry of `n` (known, since its original could be read)
    cases hset : set sch cs false st n a with
    | error e =>
      -- the forward pass stops here: nothing further was assigned
      have hfw : (setAll sch cs st ((n, a) :: rest)).1 = st := by simp [setAll, hset]
      rw [hfw] at h1
      have hs1 : ∀ x, lower x ∉ T → get sch s1' x = get sch st0 x := by
        intro x hx; rcases h1 x with h | h
        · rw [h]; exact hT x hx
        · exact h
      -- whatever the restore loop does from here, it only writes originals
      rcases restore_pointwise sch cs st0 hd hw0 ((n, v) :: orest) s1'
          (by intro q hq; rcases List.mem_cons.mp hq with rfl | hq'; exact hv; exact horig q hq') m with h | h
      · rw [h]; exact hs1 m hm
      · exact h
    | ok sta =>
      obtain ⟨s, w, hsn, hdyn, rfl, _⟩ := set_ok hd hset
      have hdyn' : s.dynamic = true := by simpa using hdyn
      have hg := get_good hd hw0 hsn hv
      have hfw : (setAll sch cs st ((n, a) :: rest)).1 = (setAll sch cs (put st (lower n) w) rest).1 := by simp [setAll, hset]
      rw [hfw] at h1
      -- the restore loop first puts `n` back
      have hr1 : restore sch cs s1' ((n, v) :: orest) = restore sch cs (put s1' (lower n) v) orest := by
        simp [restore, set_val_good (st := s1') hsn hg hdyn']
      rw [hr1]
      by_cases hk : lower m = lower n
      · -- `m` is the variable just restored: the rest of the loop only writes originals
        rcases restore_pointwise sch cs st0 hd hw0 orest (put s1' (lower n) v) horig m with h | h
        · rw [h, get_put]; simp only [hk, if_true]
          have : get sch st0 m = get sch st0 n := by unfold Mimic.Variables.get; rw [hk]
          rw [this, hv]
        · exact h
      · refine ih orest (put st (lower n) w) (lower n :: T) hrest ?_ (put s1' (lower n) v) ?_ m ?_
        · intro x hx
          have hx1 : lower x ≠ lower n := fun h => hx (by simp [h])
          have hx2 : lower x ∉ T := fun h => hx (by simp [h])
          rw [get_put]; simp [hx1, hT x hx2]
        · intro x
          rw [get_put]
          by_cases hxn : lower x = lower n
          · right; simp only [hxn, if_true]
            have : get sch st0 x = get sch st0 n := by unfold Mimic.Variables.get; rw [hxn]
            rw [this, hv]
          · simp only [hxn, if_false]; exact h1 x
        · intro h; rcases List.mem_cons.mp h with h | h
          · exact hk h
          · exact hm h

/-- **A SET_VAR hint changes variables for its own statement only.**  For every hint list — duplicates, unknown or
    read-only names, values of the wrong type — and every body, succeeding or raising, every variable reads the same
    after the statement as before it. -/
theorem hinted_restores (sch : List Schema) (cs : List String) (st0 : Store) (hd : DefaultsOk sch cs) (hw0 : WT sch cs st0)
    (assigns : List (String × Arg)) (body : Store → Option Err) (m : String) :
    get sch (hinted sch cs st0 assigns body).1 m = get sch st0 m := by
  unfold hinted
  split
  · rfl
  · rename_i orig hs
    have key := assign_restore sch cs st0 hd hw0 assigns orig st0 [] hs (fun _ _ => rfl)
      (setAll sch cs st0 assigns).1 (fun _ => Or.inl rfl) m (by simp)
    split <;> (rename_i st1 _ heq; rw [heq] at key; exact key)

/-- the body of a hinted statement does see the hinted values -/
theorem hinted_body_sees_assignments (sch : List Schema) (cs : List String) (st0 : Store) (assigns : List (String × Arg)) (orig : List (String × V))
    (st1 : Store) (body : Store → Option Err) (hs : saveAll sch st0 assigns = some orig) (hf : setAll sch cs st0 assigns = (st1, none))
    (hr : (restore sch cs st1 orig).2 = none) :
    (hinted sch cs st0 assigns body).2 = body st1 := by
  unfold hinted; rw [hs]; simp only [hf, hr]

/-! ### well-typedness is an invariant of everything a client can do -/

theorem setAll_WT (sch : List Schema) (cs : List String) (hd : DefaultsOk sch cs) :
    ∀ (l : List (String × Arg)) (st : Store), WT sch cs st → WT sch cs (setAll sch cs st l).1 := by
  intro l
  induction l with
  | nil => intro st h; exact h
  | cons p rest ih =>
    intro st h
    obtain ⟨n, a⟩ := p
    unfold setAll
    split
    · rename_i st' hs; exact ih st' (set_WT hd h hs)
    · exact h

theorem setItem_WT (sch : List Schema) (cs : List String) (dc : String → Option String) (hd : DefaultsOk sch cs) (st : Store) (it : Item)
    (h : WT sch cs st) : WT sch cs (setItem sch cs dc st it).1 := by
  cases it with
  | var sc n a =>
    cases sc <;> cases a <;> simp only [setItem] <;> first | exact h | exact setAll_WT sch cs hd _ st h
  | varRef n r =>
    simp only [setItem]
    split
    · exact setAll_WT sch cs hd _ st h
    · exact h
  | names c coll =>
    cases c with
    | none => exact setAll_WT sch cs hd _ st h
    | some c =>
      simp only [setItem]
      split
      · exact h
      · exact setAll_WT sch cs hd _ st h
  | charset c =>
    cases c with
    | none => exact setAll_WT sch cs hd _ st h
    | some c =>
      simp only [setItem]
      split
      · exact setAll_WT sch cs hd _ st h
      · exact h
  | transaction chars => exact setAll_WT sch cs hd _ st h
  | transactionUnknown => exact h
  | unsupported => exact h

theorem setStmt_WT (sch : List Schema) (cs : List String) (dc : String → Option String) (hd : DefaultsOk sch cs) :
    ∀ (items : List Item) (st : Store), WT sch cs st → WT sch cs (setStmt sch cs dc st items).1 := by
  intro items
  induction items with
  | nil => intro st h; exact h
  | cons it rest ih =>
    intro st h
    unfold setStmt
    have := setItem_WT sch cs dc hd st it h
    split
    · rename_i st' heq; rw [heq] at this; exact ih st' this
    · rename_i st' e heq; rw [heq] at this; exact this

theorem setStmtR_WT (sch : List Schema) (cs : List String) (dc : String → Option String) (hd : DefaultsOk sch cs)
    (items : List Item) (st : Store) (h : WT sch cs st) : WT sch cs (setStmtR sch cs dc st items).1 := by
  unfold setStmtR
  split
  · exact setStmt_WT sch cs dc hd _ st h
  · exact h

theorem restore_WT (sch : List Schema) (cs : List String) (hd : DefaultsOk sch cs) :
    ∀ (orig : List (String × V)) (st : Store), WT sch cs st → WT sch cs (restore sch cs st orig).1 := by
  intro orig
  induction orig with
  | nil => intro st h; exact h
  | cons p rest ih =>
    intro st h
    obtain ⟨n, v⟩ := p
    unfold restore
    split
    · rename_i st' hs; exact ih st' (set_WT hd h hs)
    · exact h

theorem hinted_WT (sch : List Schema) (cs : List String) (hd : DefaultsOk sch cs) (st : Store) (h : WT sch cs st)
    (assigns : List (String × Arg)) (body : Store → Option Err) : WT sch cs (hinted sch cs st assigns body).1 := by
  unfold hinted
  split
  · exact h
  · have h1 := setAll_WT sch cs hd assigns st h
    split
    next st1 e heq => rw [heq] at h1; exact restore_WT sch cs hd _ st1 h1
    next st1 heq => rw [heq] at h1; exact restore_WT sch cs hd _ st1 h1

/-- **An accepted assignment never breaks the session (time zone)**: in every well-typed store — hence after every
    sequence of client statements — the value of a time-zone-typed variable is one `parse_timezone` understands. -/
theorem accepted_timezone_usable (sch : List Schema) (cs : List String) (hd : DefaultsOk sch cs) (st : Store) (hw : WT sch cs st)
    (n : String) (s : Schema) (hs : findSchema sch (lower n) = some s) (hty : s.ty = .timezone) (hdn : s.dflt ≠ .none)
    (v : V) (hg : get sch st n = .ok v) : (tzOffset (pyStr v)).isSome = true := by
  have := get_good hd hw hs hg
  rcases this with ⟨h1, h2⟩ | ⟨h1, h2⟩
  · exact absurd h2 hdn
  · rw [hty] at h2
    simp only [coerce] at h2
    split at h2
    · assumption
    · cases h2

/-- **… (character sets)**: the value of a charset-typed variable is always one of the usable character sets. -/
theorem accepted_charset_usable (sch : List Schema) (cs : List String) (hd : DefaultsOk sch cs) (st : Store) (hw : WT sch cs st)
    (n : String) (s : Schema) (hs : findSchema sch (lower n) = some s) (hty : s.ty = .charset) (hdn : s.dflt ≠ .none)
    (v : V) (hg : get sch st n = .ok v) : cs.contains (pyStr v) = true := by
  have := get_good hd hw hs hg
  rcases this with ⟨h1, h2⟩ | ⟨h1, h2⟩
  · exact absurd h2 hdn
  · rw [hty] at h2
    simp only [coerce] at h2
    split at h2
    · assumption
    · cases h2

/-- `SHOW VARIABLES`: one row per variable of the schema, in the sorted order of the names -/
theorem list_complete_sorted (sch : List Schema) (st : Store) (names : List String)
    (hall : ∀ n ∈ names, (findSchema sch (lower n)).isSome = true) :
    (list sch st names).map (·.1) = names := by
  unfold list
  induction names with
  | nil => rfl
  | cons n rest ih =>
    have hn := hall n (by simp)
    have : ∃ v, get sch st n = .ok v := by
      unfold Mimic.Variables.get
      cases hl : st.lookup (lower n) with
      | some v => exact ⟨v, rfl⟩
      | none =>
        cases hf : findSchema sch (lower n) with
        | some s => exact ⟨s.dflt, rfl⟩
        | none => rw [hf] at hn; cases hn
    obtain ⟨v, hv⟩ := this
    simp only [List.filterMap_cons, hv, List.map_cons]
    rw [ih (fun x hx => hall x (by simp [hx]))]

/-! ### the code's schema -/

/-- every default of the code's schema is accepted by its own type (so DEFAULT / restore can never fail on it) -/
theorem code_defaults_ok : DefaultsOk Mimic.Extracted.Variables.schema Mimic.Extracted.Variables.usableCharsets :=
  defaultsOk_of_B (by decide +kernel)

/-- the listing covers the code's schema: every listed name is a variable, and every variable is listed -/
theorem code_listing_complete :
    (Mimic.Extracted.Variables.sortedNames.all (fun n => (findSchema Mimic.Extracted.Variables.schema (lower n)).isSome)) = true ∧
    (Mimic.Extracted.Variables.schema.all (fun s => Mimic.Extracted.Variables.sortedNames.contains s.name)) = true ∧
    Mimic.Extracted.Variables.sortedNames.length = Mimic.Extracted.Variables.schema.length := by
  decide +kernel

/-- in the code's schema the variables later statements depend on have a usable, non-`None` default and the
    identity-carrying ones are read-only -/
theorem code_schema_facts :
    (Mimic.Extracted.Variables.schema.all (fun s => (s.ty != .timezone && s.ty != .charset) || s.dflt != .none)) = true ∧
    (["version", "external_user", "license", "version_comment", "system_time_zone"].all (fun n =>
      match findSchema Mimic.Extracted.Variables.schema n with | some s => !s.dynamic | none => false)) = true := by
  decide +kernel

/-! ### non-vacuity -/

example : (hinted Mimic.Extracted.Variables.schema Mimic.Extracted.Variables.usableCharsets [("sql_mode", .str "X")]
    [("sql_mode", .val (.str "Y")), ("version", .val (.str "9")), ("autocommit", .val (.bool false))] (fun _ => none)).2 = some .notDynamic := by
  decide +kernel

example : (match get Mimic.Extracted.Variables.schema (hinted Mimic.Extracted.Variables.schema Mimic.Extracted.Variables.usableCharsets [("sql_mode", .str "X")]
    [("sql_mode", .val (.str "Y")), ("version", .val (.str "9")), ("autocommit", .val (.bool false))] (fun _ => none)).1 "SQL_MODE" with
    | .ok v => v == .str "X" | .error _ => false) = true := by
  decide +kernel

example : tzOffset "-00:45" = some (-45) ∧ tzOffset "+05:30xyz" = some 330 ∧ tzOffset "+24:00" = none ∧ tzOffset "bogus" = none := by decide +kernel

end MimicProps.C14
