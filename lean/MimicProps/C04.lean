import MimicProofs.Framing
import MimicProofs.StreamCode
import MimicProofs.Types
/-!
# C04 — Packet framing is lossless for every payload size and every stream segmentation

All theorems are parametric in the packet-size limit `m` (`0 < m < 2^24`) and instantiated at the constant
`M = 0xFFFFFF` extracted from `stream.py`, so no 16 MiB list is ever built.
-/
namespace MimicProps.C04
open Mimic.Framing

/-- reader state after a clean message boundary -/
def idle (e : Nat) : St := { buf := [], acc := [], expect := e, hdr := none, dead := false }

theorem step1_idle (m e : Nat) : step1 m (idle e) = none := by simp [step1, idle]

/-- Core of the write/read round trip, for a reader that may already hold accumulated data. -/
theorem drain_wire (m : Nat) (hm : 0 < m) (hm' : m < 2 ^ 24) (n : Nat) :
    ∀ (p : Bytes) (s : Nat) (acc : Bytes), p.length = n →
      drain m { buf := wire m s p, acc := acc, expect := s % 256, hdr := none, dead := false } =
        (idle ((s + (split m s p).length) % 256), [Ev.msg (acc ++ p)]) := by
  induction n using Nat.strongRecOn with
  | _ n ih =>
    intro p s acc hn
    by_cases h : m ≤ p.length
    · have hsp := split_ge (s := s) ⟨hm, h⟩
      have hw : wire m s p = encPkt (s % 256) (p.take m) ++ wire m (s + 1) (p.drop m) := by
        simp [wire, hsp]
      have hlen : (p.take m).length = m := by simp; omega
      rw [drain_pkt m _ (s % 256) (p.take m) (wire m (s + 1) (p.drop m)) rfl rfl (by simp) (by omega)
            (by simp [hw])]
      simp only [hlen, if_true]
      have e1 : (s % 256 + 1) % 256 = (s + 1) % 256 := by omega
      simp only [e1]
      have := ih (p.drop m).length (by simp; omega) (p.drop m) (s + 1) (acc ++ p.take m) rfl
      rw [this, hsp]
      simp only [List.length_cons, List.append_assoc, List.take_append_drop]
      have e2 : (s + 1 + (split m (s + 1) (List.drop m p)).length) % 256 =
                (s + ((split m (s + 1) (List.drop m p)).length + 1)) % 256 := by congr 1; omega
      rw [e2]
    · have hsp := split_lt (s := s) (p := p) (m := m) (by omega)
      have hw : wire m s p = encPkt (s % 256) p ++ [] := by simp [wire, hsp]
      rw [drain_pkt m _ (s % 256) p [] rfl rfl (by simp) (by omega) (by simp [hw])]
      have hne : p.length ≠ m := by omega
      simp only [hne, if_false, hsp, List.length_singleton]
      have e1 : (s % 256 + 1) % 256 = (s + 1) % 256 := by omega
      simp only [e1]
      have hd : drain m { buf := [], acc := [], expect := (s + 1) % 256, hdr := none, dead := false } =
          (idle ((s + 1) % 256), []) := drain_none (step1_idle m _)
      simp [hd, idle]

/-- **Write/read round trip.** Whatever payload `p` (any length: 0, `m-1`, `m`, `k·m`, `k·m+1`, …) is cut into
    packets by `MysqlStream.write` starting at sequence id `s`, a reader that expects `s` reassembles exactly
    `p`, consumes every byte, and ends with its sequence counter advanced by the number of packets. -/
theorem reassemble_split (m : Nat) (hm : 0 < m) (hm' : m < 2 ^ 24) (p : Bytes) (s : Nat) :
    feed m (idle (s % 256)) (wire m s p) =
      (idle ((s + (split m s p).length) % 256), [Ev.msg p]) := by
  have := drain_wire m hm hm' p.length p s [] rfl
  simpa [feed, St.app, idle] using this

/-- The instance for the code's constant `0xFFFFFF`. -/
theorem reassemble_split_M (p : Bytes) (s : Nat) :
    feed M (idle (s % 256)) (wire M s p) = (idle ((s + (split M s p).length) % 256), [Ev.msg p]) :=
  reassemble_split M M_pos M_lt p s

/-- Number of packets written for a payload: `len / M + 1`, i.e. an exact multiple of `M` (including the
    empty payload) is terminated by an empty packet. -/
theorem packet_count (p : Bytes) (s : Nat) : (split M s p).length = p.length / M + 1 :=
  split_length M M_pos p.length s p rfl

/-- Sequence ids of the packets of one payload count up from `s` modulo 256. -/
theorem seq_consecutive (m : Nat) (hm : 0 < m) (n : Nat) : ∀ (p : Bytes) (s i : Nat), p.length = n →
    i < (split m s p).length → ((split m s p)[i]?).map Prod.fst = some ((s + i) % 256) := by
  induction n using Nat.strongRecOn with
  | _ n ih =>
    intro p s i hn hi
    by_cases h : m ≤ p.length
    · rw [split_ge ⟨hm, h⟩] at hi ⊢
      cases i with
      | zero => simp
      | succ i =>
        simp only [List.getElem?_cons_succ]
        have := ih (p.drop m).length (by simp; omega) (p.drop m) (s + 1) i rfl (by simpa using hi)
        rw [this]; congr 2; omega
    · rw [split_lt (by omega)] at hi ⊢
      simp at hi; subst hi; simp

/-- **Bytes leave in write order, none lost, none duplicated.** For every writer state and every
    `write(payload, drain)` — whatever is already buffered, whatever the flush threshold `B` — the bytes handed
    to the transport followed by the bytes still buffered are exactly the previous ones followed by the
    packets of `payload`. -/
theorem write_preserves_order (m B : Nat) (st : WSt) (payload : Bytes) (d : Bool) :
    (wwrite m B st payload d).bytes = st.bytes ++ wire m st.seq payload := by
  unfold wwrite wire
  have := foldl_putPkt_bytes B d (split m st.seq payload) st
  simpa [WSt.bytes] using this

/-- the wire image of a list of payloads, with the sequence counter threaded through -/
def wireAll (m : Nat) : Nat → List Bytes → Bytes
  | _, [] => []
  | s, p :: ps => wire m s p ++ wireAll m ((s + (split m s p).length) % 256) ps

/-- The same for an arbitrary program of writes (each with its own drain flag): the transport plus the buffer
    hold exactly the packets of all payloads, in program order. -/
theorem writes_preserve_order (m B : Nat) (ws : List (Bytes × Bool)) : ∀ st : WSt,
    (ws.foldl (fun s w => wwrite m B s w.1 w.2) st).bytes = st.bytes ++ wireAll m st.seq (ws.map Prod.fst) := by
  induction ws with
  | nil => intro st; simp [wireAll]
  | cons w ws ih =>
    intro st
    simp only [List.foldl_cons, List.map_cons, wireAll]
    rw [ih, write_preserves_order, List.append_assoc]
    rfl

/-- **Segmentation independence.** However the client→server byte stream is cut into network reads
    (byte-at-a-time, a header split across reads, several packets in one read, …), the reader delivers the
    same payloads in the same order, raises the same sequence error at the same point, and is left in the same
    state as when the whole stream arrives in one read. -/
theorem feed_segmentation_independent (e : Nat) (chunks : List Bytes) :
    feedAll M (idle e) chunks = feed M (idle e) chunks.flatten :=
  feedAll_eq_feed_flatten M (idle e) (step1_idle M e) chunks

/-- Corollary: two segmentations of the same byte stream are indistinguishable. -/
theorem segmentations_agree (e : Nat) (c₁ c₂ : List Bytes) (h : c₁.flatten = c₂.flatten) :
    feedAll M (idle e) c₁ = feedAll M (idle e) c₂ := by
  rw [feed_segmentation_independent, feed_segmentation_independent, h]

/-- Round trip through an arbitrary segmentation of the wire bytes. -/
theorem reassemble_any_segmentation (p : Bytes) (s : Nat) (chunks : List Bytes)
    (h : chunks.flatten = wire M s p) :
    feedAll M (idle (s % 256)) chunks = (idle ((s + (split M s p).length) % 256), [Ev.msg p]) := by
  rw [feed_segmentation_independent, h, reassemble_split_M]

/-- non-vacuity (small `m` so that the multi-packet branch is visible): a 5-byte payload with `m = 2` becomes
    3 packets (2+2+1) with sequence ids wrapping 254, 255, 0; a 4-byte payload 3 packets (2+2+0). -/
example : (split 2 254 [1, 2, 3, 4, 5]).map (fun qc => (qc.1, qc.2.length)) = [(254, 2), (255, 2), (0, 1)] ∧
          (split 2 0 [1, 2, 3, 4]).map (fun qc => (qc.1, qc.2.length)) = [(0, 2), (1, 2), (2, 0)] := by
  constructor <;> simp [split]

/-- the hypothesis of `reassemble_any_segmentation` is satisfiable for every payload: byte-at-a-time -/
example (p : Bytes) (s : Nat) : ((wire M s p).map (fun b => [b])).flatten = wire M s p := by
  induction wire M s p with
  | nil => rfl
  | cons b bs ih => simp [ih]


/-! ### the code's own header encoding (translated from `types.py` on every run) -/

/-- the four header bytes the code writes — `uint_3(len) + uint_1(seq)` as translated from the source — are the
    model's, for every length and sequence id -/
theorem header_is_code (len seq : Nat) :
    Mimic.Extracted.Types.uint_3 len ++ Mimic.Extracted.Types.uint_1 seq = Mimic.Wire.leN 3 len ++ Mimic.Wire.leN 1 seq := by
  rw [MimicProofs.Types.uint_3_eq, MimicProofs.Types.uint_1_eq]

/-- and the code's header readers are the model's -/
theorem header_read_is_code (r : Mimic.Wire.Bytes) :
    Mimic.Extracted.Types.read_uint_3 r = Mimic.Wire.readUInt 3 r ∧ Mimic.Extracted.Types.read_uint_1 r = Mimic.Wire.readUInt 1 r :=
  ⟨MimicProofs.Types.read_uint_3_eq r, MimicProofs.Types.read_uint_1_eq r⟩

/-! ### the write loop itself (`Mimic.Extracted.StreamCode`, regenerated from `/repo` by `harness/pytrans2.py`) -/

open MimicProofs.StreamCode in
/-- **`MysqlStream.write` of `stream.py`, translated, is the model's `wwrite`** — the `while True` loop with its slicing
    at 0xFFFFFF, the header `uint_3(len) + uint_1(next(seq))`, the buffer, the threshold test and `drain()` — for every
    payload, drain flag, buffer size and starting state, and it terminates: any fuel above the payload length suffices. -/
theorem write_is_code (s : MS) (hw : WF s) (data : Bytes) (d : Bool) (fuel : Nat) (hf : data.length < fuel) :
    ∃ s' : MS, Mimic.Extracted.StreamCode.ms_write fuel s data d = some s' ∧
      absW s' = wwrite 16777215 s._buffer_size (absW s) data d ∧ WF s' ∧ s'._buffer_size = s._buffer_size :=
  write_refines s hw data d fuel hf

open MimicProofs.StreamCode in
/-- **code level: bytes leave in write order, none lost, none duplicated** — what the translated `write` has handed to the
    transport plus what it still buffers is what was there before followed by the packets of the payload -/
theorem code_write_preserves_order (s : MS) (hw : WF s) (data : Bytes) (d : Bool) (fuel : Nat) (hf : data.length < fuel) :
    ∃ s' : MS, Mimic.Extracted.StreamCode.ms_write fuel s data d = some s' ∧
      (absW s').bytes = (absW s).bytes ++ wire 16777215 s.seq.value data := by
  obtain ⟨s', h1, h2, _, _⟩ := write_refines s hw data d fuel hf
  exact ⟨s', h1, by rw [h2, write_preserves_order]; rfl⟩

/-- the literal the code slices at is the model's `M` -/
theorem code_max_packet : (16777215 : Nat) = M := by decide

end MimicProps.C04
