import MimicProofs.Params
import MimicProofs.ParsersCode
/-!
# C17 — Query attributes reach the application exactly as sent
-/
namespace MimicProps.C17
open Mimic.Params Mimic.Wire

/-- a dict built from pairs with pairwise distinct names is the list of pairs itself -/
theorem dictOf_distinct {α : Type} (ps : List (List Char × α)) (h : (ps.map Prod.fst).Nodup) : dictOf ps = ps := by
  have gen : ∀ (ps acc : List (List Char × α)), ((acc ++ ps).map Prod.fst).Nodup → ps.foldl dictInsert acc = acc ++ ps := by
    intro ps
    induction ps with
    | nil => intro acc _; simp
    | cons p ps ih =>
      intro acc hnd
      have hnot : acc.any (fun x => x.1 = p.1) = false := by
        simp only [List.map_append, List.map_cons] at hnd
        have := (List.nodup_append.mp hnd).2.2
        simp only [List.any_eq_false, decide_eq_true_eq]
        intro x hx heq
        exact this x.1 (List.mem_map_of_mem hx) p.1 (by simp) heq
      simp only [List.foldl_cons, dictInsert, hnot, Bool.false_eq_true, if_false]
      rw [ih (acc ++ [p]) (by simpa using hnd)]
      simp
  simpa [dictOf] using gen ps [] (by simpa using h)

/-- **COM_QUERY with attributes**: with `CLIENT_QUERY_ATTRIBUTES` negotiated, the payload built by a client from
    any non-empty list of attributes (any count, NULLs, all value kinds) and any SQL text is parsed into exactly
    that SQL text and exactly those (name, value) pairs. -/
theorem attrs_roundtrip_query (valid : List Nat) (dec : Bytes → Option (List Char)) (items : List Item)
    (names : List (List Char)) (sqlBytes : Bytes) (sql : List Char) (hne : items ≠ [])
    (hcount : items.length < 2 ^ 64)
    (hok : ∀ i ∈ items, i.ok valid dec true)
    (hnames : Mimic.Results.optAll (items.map (fun i => dec i.t.name)) = some names)
    (hsql : dec sqlBytes = some sql) :
    parseQuery valid dec true (encLen items.length ++ encLen 1 ++ encBlock true items ++ sqlBytes) =
      some (sql, dictOf (names.zip (items.map (fun i => i.v)))) := by
  unfold parseQuery
  simp only [if_true, List.append_assoc]
  have h1 : ∀ r : Bytes, decLen (encLen 1 ++ r) = some (1, r) := fun r => decLen_encLen 1 (by decide) r
  simp only [decLen_encLen _ hcount, h1]
  rw [readParams_enc valid dec true items names sqlBytes hne hok hnames]
  simp [hsql]

/-- no attributes: the two count bytes are skipped and the rest is the SQL text -/
theorem attrs_empty_query (valid : List Nat) (dec : Bytes → Option (List Char)) (sqlBytes : Bytes) (sql : List Char)
    (hsql : dec sqlBytes = some sql) :
    parseQuery valid dec true (encLen 0 ++ encLen 1 ++ sqlBytes) = some (sql, []) := by
  unfold parseQuery
  simp only [if_true, List.append_assoc]
  have h0 : ∀ r : Bytes, decLen (encLen 0 ++ r) = some (0, r) := fun r => decLen_encLen 0 (by decide) r
  have h1 : ∀ r : Bytes, decLen (encLen 1 ++ r) = some (1, r) := fun r => decLen_encLen 1 (by decide) r
  simp only [h0, h1, readParams, if_true, hsql, Option.map_some, dictOf, List.foldl_nil]

/-- **Clients that did not negotiate query attributes are parsed without them**: for every payload — including ones
    whose first bytes are 0x00–0x02 — the SQL text is the whole payload and the attribute mapping is empty. -/
theorem no_attrs_without_capability (valid : List Nat) (dec : Bytes → Option (List Char)) (payload : Bytes) :
    parseQuery valid dec false payload = (dec payload).map (fun sql => (sql, [])) := by
  simp [parseQuery]

/-- **COM_STMT_EXECUTE with parameters and attributes** (capability negotiated, count transmitted): the first
    `numParams` entries are bound as literals into the prepared text, the remaining entries are the attribute
    mapping — and the SQL text depends only on the positional parameters (attaching attributes alters neither the
    SQL nor the bound values). -/
theorem attrs_roundtrip_execute (valid : List Nat) (dec : Bytes → Option (List Char)) (fltText : Bytes → List Char)
    (stmt : Stmt) (flags : UInt8) (iter : Bytes) (items : List Item) (names : List (List Char)) (rest : Bytes)
    (hiter : iter.length = 4) (hne : items ≠ []) (hcount : items.length < 2 ^ 64)
    (hnp : 0 < stmt.numParams ∨ flags.toNat / 8 % 2 = 1) (hbuf : stmt.buffers = fun _ => none)
    (hok : ∀ i ∈ items, i.ok valid dec true)
    (hnames : Mimic.Results.optAll (items.map (fun i => dec i.t.name)) = some names) :
    parseExecute valid dec fltText true stmt (flags :: (iter ++ (encLen items.length ++ (encBlock true items ++ rest)))) =
      (interp 0 stmt.sql (((names.zip (items.map (fun i => i.v))).take stmt.numParams).map
          (fun kv => literal fltText kv.2))).map
        (fun r => (r.1, dictOf ((names.zip (items.map (fun i => i.v))).drop stmt.numParams), decide (flags.toNat % 2 = 1))) := by
  unfold parseExecute
  simp only [takeN_append 4 iter _ hiter]
  have hrc : ((stmt.numParams > 0 ∨ (True ∧ flags.toNat / 8 % 2 = 1)) ∧ True) := by
    refine ⟨?_, trivial⟩
    rcases hnp with h | h
    · exact Or.inl h
    · exact Or.inr ⟨trivial, h⟩
  have hlen : items.length ≠ 0 := fun c => hne (List.length_eq_zero_iff.mp c)
  simp only [decLen_encLen _ hcount, if_pos hrc, hlen, if_false, hbuf]
  rw [readParams_enc valid dec true items names rest hne hok hnames]
  simp only
  cases interp 0 stmt.sql (((names.zip (items.map (fun i => i.v))).take stmt.numParams).map
      (fun kv => literal fltText kv.2)) <;> simp

/-- independence, stated outright: two executions whose positional parameters coincide produce the same SQL,
    whatever attributes either of them carries -/
theorem sql_independent_of_attrs (fltText : Bytes → List Char) (sql : List Char) (n : Nat)
    (ps₁ ps₂ : List (List Char × PVal)) (h : (ps₁.take n).map Prod.snd = (ps₂.take n).map Prod.snd) :
    (interp 0 sql ((ps₁.take n).map (fun kv => literal fltText kv.2))).map Prod.fst =
    (interp 0 sql ((ps₂.take n).map (fun kv => literal fltText kv.2))).map Prod.fst := by
  have e : ∀ ps : List (List Char × PVal), (ps.take n).map (fun kv => literal fltText kv.2) =
      ((ps.take n).map Prod.snd).map (literal fltText) := by intro ps; simp [List.map_map, Function.comp_def]
  rw [e ps₁, e ps₂, h]

/-- non-vacuity: a concrete attribute item satisfying `Item.ok` (VAR_STRING named "k" with value "v") -/
example : (Item.mk { code := 253, unsigned := false, name := [107] } (.str ['v']) (encStr [118])).ok [253]
    (fun b => some (b.map (fun x => Char.ofNat x.toNat))) true := by
  unfold Item.ok
  refine ⟨?_, ?_, ?_, ?_, ?_, ?_⟩
  · decide
  · decide
  · decide
  · intro h; cases h
  · intro h; simp [Item.isNull] at h
  · intro _ rest
    exact readValue_str _ _ [118] ['v'] rest (by decide) (by decide) (by decide)

/-! ### the code itself (`Mimic.Extracted.ParsersCode`, regenerated from `/repo` by `harness/pytrans2.py`) -/

/-- **`parse_com_query` of `packets.py`, translated, is the model's `parseQuery`** (attribute count, parameter block,
    Python dict construction, statement text) for every payload and both settings of CLIENT_QUERY_ATTRIBUTES -/
theorem parse_com_query_is_code (E : Mimic.Py.Env (List Char)) (caps cs : Nat) (valid : List Nat)
    (hv : ∀ n, E.validType n = valid.contains n) (hE : E.decode cs [] = some E.empty) (data : Bytes) (hr : data.length < 2 ^ 63) :
    (Mimic.Extracted.ParsersCode.parse_com_query E caps cs data).map (fun q => (q.sql, q.query_attrs))
      = (parseQuery valid (E.decode cs) (Mimic.Py.hasBit caps 27) data).map (fun x => (x.1, x.2.map MimicProofs.ParsersCode.kvOut)) :=
  MimicProofs.ParsersCode.parse_com_query_eq E caps cs valid hv hE data hr

/-- **code-level round trip of query attributes on COM_QUERY**: what the translated `parse_com_query` hands to the
    application is exactly the SQL text and exactly the (name, value) pairs the client sent -/
theorem code_attrs_roundtrip_query (E : Mimic.Py.Env (List Char)) (caps cs : Nat) (valid : List Nat)
    (hv : ∀ n, E.validType n = valid.contains n) (hE : E.decode cs [] = some E.empty) (hq : Mimic.Py.hasBit caps 27 = true)
    (items : List Item) (names : List (List Char)) (sqlBytes : Bytes) (sql : List Char) (hne : items ≠ [])
    (hcount : items.length < 2 ^ 64) (hok : ∀ i ∈ items, i.ok valid (E.decode cs) true)
    (hnames : Mimic.Results.optAll (items.map (fun i => E.decode cs i.t.name)) = some names)
    (hsql : E.decode cs sqlBytes = some sql)
    (hlen : (encLen items.length ++ encLen 1 ++ encBlock true items ++ sqlBytes).length < 2 ^ 63) :
    (Mimic.Extracted.ParsersCode.parse_com_query E caps cs (encLen items.length ++ encLen 1 ++ encBlock true items ++ sqlBytes)).map
        (fun q => (q.sql, q.query_attrs))
      = some (sql, (dictOf (names.zip (items.map (fun i => i.v)))).map MimicProofs.ParsersCode.kvOut) := by
  rw [MimicProofs.ParsersCode.parse_com_query_eq E caps cs valid hv hE _ hlen, hq,
    attrs_roundtrip_query valid (E.decode cs) items names sqlBytes sql hne hcount hok hnames hsql]
  rfl

/-- **code level: no attributes without the capability** — for every payload the SQL text is the whole payload -/
theorem code_no_attrs_without_capability (E : Mimic.Py.Env (List Char)) (caps cs : Nat) (valid : List Nat)
    (hv : ∀ n, E.validType n = valid.contains n) (hE : E.decode cs [] = some E.empty) (hq : Mimic.Py.hasBit caps 27 = false)
    (payload : Bytes) (hr : payload.length < 2 ^ 63) :
    (Mimic.Extracted.ParsersCode.parse_com_query E caps cs payload).map (fun q => (q.sql, q.query_attrs))
      = (E.decode cs payload).map (fun sql => (sql, [])) := by
  rw [MimicProofs.ParsersCode.parse_com_query_eq E caps cs valid hv hE _ hr, hq, no_attrs_without_capability]
  cases E.decode cs payload <;> rfl

/-- non-vacuity at code level: a COM_QUERY payload with one attribute `k = 7` (LONGLONG) in front of `select 1`, run
    through the translated `parse_com_query` -/
example : (Mimic.Extracted.ParsersCode.parse_com_query MimicProofs.ParsersCode.asciiEnv (2 ^ 27) 0
      ([1, 1, 0, 1, 8, 0, 1, 107, 7, 0, 0, 0, 0, 0, 0, 0] ++ "select 1".toList.map (fun c => UInt8.ofNat c.toNat))).map
        (fun q => (q.sql, q.query_attrs.map (fun kv => (kv.1, MimicProofs.ParsersCode.toPVal kv.2))))
    = some ("select 1".toList, [(some ['k'], .int 7)]) := by decide +kernel

end MimicProps.C17
