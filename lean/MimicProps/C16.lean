import Mimic.Catalog
import Mimic.Extracted.Catalog
import Mimic.Extracted.LikeCode
import MimicProofs.Like
import MimicProofs.HandlersCode
import MimicProofs.CommandLoop
/-!
# C16 — Catalog answers mirror the application's declared schema exactly

* `table_columns_exactly_declared`: for every well-formed mapping (unique keys at every level, as in a Python dict) and
  every declared table, the catalog's columns for that (catalog, database, table) are exactly the declared ones, in
  declaration order — each once, nothing else; `column_declared_iff` for membership; ordinals count up from 0;
* `dedup_*`: every declared database / table occurs exactly once among the keys the catalog tables are built from;
* `show_*_exact`: each SHOW form denotes exactly the subset its FROM / LIKE filters describe;
* `like_regex_equiv`: the regular expression built for a pattern, applied with `fullmatch`, accepts exactly what SQL
  LIKE accepts — for all patterns and strings; `like_literal`, `like_percent`;
* the built-in catalog entries are always present (over the extracted INFO_SCHEMA).
-/
namespace MimicProps.C16
open Mimic.Catalog Mimic.Like

/-! ### LIKE -/

/-- **LIKE semantics of the translated pattern**: for every pattern and string -/
theorem like_regex_equiv (p s : List Char) : like p s = true ↔ Matches (tr p) s :=
  ⟨MimicProofs.Like.like_sound p s, fun h => MimicProofs.Like.like_complete _ _ h p rfl⟩

/-- the code's translation has the three branches the model translates, compiled with DOTALL and applied with fullmatch -/
theorem like_translation_shape :
    Mimic.Extracted.Catalog.likeBranches = ["char == '%' -> parts.append('.*')", "char == '_' -> parts.append('.')", "else -> parts.append(re.escape(char))"] ∧
    Mimic.Extracted.Catalog.likeCompile = "return re.compile(''.join(parts), flags=re.DOTALL)" ∧
    Mimic.Extracted.Catalog.showVariablesMatch = ["regex.fullmatch"] := by decide

/-- **`like_to_regex` as translated from the source builds exactly the model's regex**, for every pattern; hence
    the code's regex under `fullmatch` accepts a string iff SQL LIKE does -/
theorem like_to_regex_is_code (p : List Char) : Mimic.Extracted.LikeCode.like_to_regex p = tr p := by
  induction p with
  | nil => rfl
  | cons c cs ih =>
    simp only [Mimic.Extracted.LikeCode.like_to_regex, List.map_cons, tr] at ih ⊢
    rw [ih]

theorem code_like_equiv (p s : List Char) : like p s = true ↔ Matches (Mimic.Extracted.LikeCode.like_to_regex p) s := by
  rw [like_to_regex_is_code]; exact like_regex_equiv p s

/-- a pattern without wildcards matches exactly itself (whole-string match) -/
theorem like_literal : ∀ (p s : List Char), (∀ c ∈ p, c ≠ '%' ∧ c ≠ '_') → (like p s = true ↔ s = p) := by
  intro p
  induction p with
  | nil => intro s _; simp [like]
  | cons c cs ih =>
    intro s h
    have hc := h c (by simp)
    have ih' := fun s => ih s (fun x hx => h x (by simp [hx]))
    cases s with
    | nil => rw [like]; simp [hc.1]
    | cons x xs =>
      rw [like]
      simp only [hc.1, if_false, Bool.and_eq_true, Bool.or_eq_true, decide_eq_true_eq, hc.2, false_or, List.cons.injEq]
      rw [ih' xs]
      constructor
      · rintro ⟨a, b⟩; exact ⟨a.symm, b⟩
      · rintro ⟨a, b⟩; exact ⟨a.symm, b⟩

/-- `%` alone matches everything, `_` exactly the one-character strings -/
theorem like_percent (s : List Char) : like ['%'] s = true := by
  induction s with
  | nil => rw [like]; simp [like]
  | cons x xs ih => rw [like]; simp [ih]

theorem like_underscore (s : List Char) : like ['_'] s = true ↔ s.length = 1 := by
  cases s with
  | nil => rw [like]; simp
  | cons x xs => rw [like]; simp [like]

/-! ### the declared columns -/

/-- keys are unique at every level (a Python dict) -/
def WF (m : Mapping) : Prop :=
  (m.map (·.1)).Nodup ∧ ∀ p ∈ m, (p.2.map (·.1)).Nodup ∧ ∀ q ∈ p.2, (q.2.map (·.1)).Nodup ∧ ∀ r ∈ q.2, (r.2.map (·.1)).Nodup

/-- filtering a flattened association list for something only one key can produce yields that key's part -/
theorem filter_flatMap_unique {β : Type} (g : String → β → List Col) (pr : Col → Bool) (k : String) (v : β) :
    ∀ (l : List (String × β)), (l.map (·.1)).Nodup → (k, v) ∈ l →
      (∀ k' v', k' ≠ k → (g k' v').filter pr = []) →
      (l.flatMap (fun p => g p.1 p.2)).filter pr = (g k v).filter pr := by
  intro l
  induction l with
  | nil => intro _ h; simp at h
  | cons a rest ih =>
    intro hn hm hother
    simp only [List.map_cons, List.nodup_cons] at hn
    simp only [List.flatMap_cons, List.filter_append]
    rcases List.mem_cons.mp hm with h | h
    · subst h
      have : (rest.flatMap (fun p => g p.1 p.2)).filter pr = [] := by
        rw [List.filter_flatMap]
        rw [List.flatMap_eq_nil_iff]
        intro b hb
        apply hother
        intro hbk
        exact hn.1 (List.mem_map.mpr ⟨b, hb, hbk⟩)
      rw [this]; simp
    · have hak : a.1 ≠ k := by
        intro hak
        exact hn.1 (List.mem_map.mpr ⟨(k, v), h, hak.symm⟩)
      rw [hother a.1 a.2 hak, ih hn.2 h hother]; simp

def sameTable (c d t : String) (x : Col) : Bool := x.cat == c && x.db == d && x.tbl == t

theorem colsOf_filter_same (c d t : String) (cs : Cols) : (colsOf c d t cs).filter (sameTable c d t) = colsOf c d t cs := by
  unfold colsOf
  rw [List.filter_eq_self]
  intro x hx
  obtain ⟨p, _, rfl⟩ := List.mem_map.mp hx
  simp [sameTable]

theorem colsOf_filter_other (c d t c' d' t' : String) (cs : Cols) (h : c' ≠ c ∨ d' ≠ d ∨ t' ≠ t) :
    (colsOf c' d' t' cs).filter (sameTable c d t) = [] := by
  unfold colsOf
  rw [List.filter_eq_nil_iff]
  intro x hx
  obtain ⟨p, _, rfl⟩ := List.mem_map.mp hx
  have : sameTable c d t ⟨c', d', t', p.1, p.2⟩ = false := by
    simp only [sameTable]
    rcases h with h | h | h <;> simp [h]
  simp [this]

theorem tablesOf_filter_other (c d t c' d' : String) (ts : Tables) (h : c' ≠ c ∨ d' ≠ d) :
    (tablesOf c' d' ts).filter (sameTable c d t) = [] := by
  unfold tablesOf
  rw [List.filter_flatMap, List.flatMap_eq_nil_iff]
  intro p _
  exact colsOf_filter_other c d t c' d' p.1 p.2 (by rcases h with h | h; exact Or.inl h; exact Or.inr (Or.inl h))

theorem dbsOf_filter_other (c d t c' : String) (ds : Dbs) (h : c' ≠ c) : (dbsOf c' ds).filter (sameTable c d t) = [] := by
  unfold dbsOf
  rw [List.filter_flatMap, List.flatMap_eq_nil_iff]
  intro p _
  exact tablesOf_filter_other c d t c' p.1 p.2 (Or.inl h)

/-- **The catalog lists a declared table's columns exactly as declared**: for every well-formed mapping and every
    declared (catalog, database, table), the columns the catalog holds for it are the declared ones, in declaration
    order, each once, and nothing else. -/
theorem table_columns_exactly_declared (m : Mapping) (hwf : WF m) (c d t : String) (dbs : Dbs) (ts : Tables) (cs : Cols)
    (hc : (c, dbs) ∈ m) (hd : (d, ts) ∈ dbs) (ht : (t, cs) ∈ ts) :
    (flatten m).filter (sameTable c d t) = colsOf c d t cs := by
  obtain ⟨h1, h2⟩ := hwf
  obtain ⟨h3, h4⟩ := h2 (c, dbs) hc
  obtain ⟨h5, _⟩ := h4 (d, ts) hd
  unfold flatten
  rw [filter_flatMap_unique (fun k v => dbsOf k v) (sameTable c d t) c dbs m h1 hc (fun k' v' hk => dbsOf_filter_other c d t k' v' hk)]
  unfold dbsOf
  rw [filter_flatMap_unique (fun k v => tablesOf c k v) (sameTable c d t) d ts dbs h3 hd
    (fun k' v' hk => tablesOf_filter_other c d t c k' v' (Or.inr hk))]
  unfold tablesOf
  rw [filter_flatMap_unique (fun k v => colsOf c d k v) (sameTable c d t) t cs ts h5 ht
    (fun k' v' hk => colsOf_filter_other c d t c d k' v' (Or.inr (Or.inr hk)))]
  exact colsOf_filter_same c d t cs

/-- membership: a column is in the catalog's declared part iff the mapping declares it -/
theorem column_declared_iff (m : Mapping) (x : Col) :
    x ∈ flatten m ↔ ∃ dbs ts cs, (x.cat, dbs) ∈ m ∧ (x.db, ts) ∈ dbs ∧ (x.tbl, cs) ∈ ts ∧ (x.name, x.ty) ∈ cs := by
  unfold flatten dbsOf tablesOf colsOf
  simp only [List.mem_flatMap, List.mem_map]
  constructor
  · rintro ⟨⟨c, dbs⟩, hc, ⟨d, ts⟩, hd, ⟨t, cs⟩, ht, ⟨n, ty⟩, hn, rfl⟩
    exact ⟨dbs, ts, cs, hc, hd, ht, hn⟩
  · rintro ⟨dbs, ts, cs, hc, hd, ht, hn⟩
    exact ⟨(x.cat, dbs), hc, (x.db, ts), hd, (x.tbl, cs), ht, (x.name, x.ty), hn, rfl⟩

/-- depth-2 and depth-3 mappings are read as database `""` / catalog `def` -/
theorem shallow_mappings (t : Tables) (d : Dbs) :
    flatten (ofDepth2 t) = tablesOf "def" "" t ∧ flatten (ofDepth3 d) = dbsOf "def" d := by
  simp [flatten, ofDepth2, ofDepth3, dbsOf]

/-- ordinal positions count a table's columns from 0 in declaration order -/
theorem ordinals_count_up (before : List Col) (c d t : String) (cs : Cols) (hb : ∀ x ∈ before, sameTable c d t x = false) :
    (withOrdinals before (colsOf c d t cs)).map (·.2) = List.range cs.length := by
  have gen : ∀ (cs : Cols) (before : List Col) (k : Nat), (before.filter (sameTable c d t)).length = k →
      (withOrdinals before (colsOf c d t cs)).map (·.2) = (List.range cs.length).map (· + k) := by
    intro cs
    induction cs with
    | nil => intro before k _; simp [colsOf, withOrdinals]
    | cons p rest ih =>
      intro before k hk
      simp only [colsOf, List.map_cons, withOrdinals, List.length_cons]
      have hord : ordinal before (⟨c, d, t, p.1, p.2⟩ : Col) = k := hk
      have hnext : ((before ++ [(⟨c, d, t, p.1, p.2⟩ : Col)]).filter (sameTable c d t)).length = k + 1 := by
        simp [List.filter_append, hk, sameTable]
      have := ih (before ++ [(⟨c, d, t, p.1, p.2⟩ : Col)]) (k + 1) hnext
      simp only [colsOf] at this
      rw [this, hord, List.range_succ_eq_map]
      simp [List.map_map, Function.comp_def, Nat.add_comm, Nat.add_left_comm]
  have h0 : (before.filter (sameTable c d t)).length = 0 := by
    rw [List.length_eq_zero_iff, List.filter_eq_nil_iff]; intro x hx; simp [hb x hx]
  rw [gen cs before 0 h0]; simp

/-! ### databases and tables: each exactly once -/

theorem mem_dedup {α : Type} [DecidableEq α] (a : α) : ∀ l : List α, a ∈ dedup l ↔ a ∈ l := by
  intro l
  induction l with
  | nil => simp [dedup]
  | cons x xs ih =>
    unfold dedup
    split
    · rename_i h
      rw [ih]; constructor
      · intro h'; exact List.mem_cons_of_mem _ h'
      · intro h'; rcases List.mem_cons.mp h' with rfl | h'; exact h; exact h'
    · simp [ih]

theorem dedup_nodup {α : Type} [DecidableEq α] : ∀ l : List α, (dedup l).Nodup := by
  intro l
  induction l with
  | nil => simp [dedup]
  | cons x xs ih =>
    unfold dedup
    split
    · exact ih
    · rename_i h
      rw [List.nodup_cons]
      exact ⟨fun h' => h ((mem_dedup x xs).mp h'), ih⟩

/-- **Every declared table occurs exactly once** among the keys of the TABLES table (and only tables that have a column do) -/
theorem tables_exactly_once (all : List Col) (k : String × String × String) :
    (tableKeys all).Nodup ∧ (k ∈ tableKeys all ↔ ∃ x ∈ all, (x.cat, x.db, x.tbl) = k) := by
  refine ⟨dedup_nodup _, ?_⟩
  unfold tableKeys
  rw [mem_dedup, List.mem_map]

/-- **Every declared database occurs exactly once** among the keys of the SCHEMATA table -/
theorem databases_exactly_once (all : List Col) (k : String × String) :
    (dbKeys all).Nodup ∧ (k ∈ dbKeys all ↔ ∃ x ∈ all, (x.cat, x.db) = k) := by
  refine ⟨dedup_nodup _, ?_⟩
  unfold dbKeys
  rw [mem_dedup, List.mem_map]

/-! ### SHOW filters -/

/-- **SHOW DATABASES [LIKE p]** lists exactly the databases of the catalog whose name matches -/
theorem show_databases_exact (all : List Col) (pat : Option String) (x : String) :
    x ∈ showDatabases all pat ↔ (∃ c, (c, x) ∈ dbKeys all) ∧ likeOpt pat x = true := by
  unfold showDatabases
  rw [List.mem_filter, List.mem_map]
  constructor
  · rintro ⟨⟨⟨c, d⟩, h, rfl⟩, hl⟩; exact ⟨⟨c, h⟩, hl⟩
  · rintro ⟨⟨c, h⟩, hl⟩; exact ⟨⟨(c, x), h, rfl⟩, hl⟩

/-- **SHOW TABLES FROM db [LIKE p]** lists exactly the tables of that database whose name matches -/
theorem show_tables_exact (all : List Col) (db : String) (hdb : db ≠ "") (cur : Option String) (pat : Option String) (x : String) :
    ∃ l, showTables all (some db) cur pat = some l ∧ (x ∈ l ↔ (∃ c, (c, db, x) ∈ tableKeys all) ∧ likeOpt pat x = true) := by
  unfold showTables
  simp only [hdb, if_false]
  refine ⟨_, rfl, ?_⟩
  rw [List.mem_filter, List.mem_map]
  constructor
  · rintro ⟨⟨⟨c, d, t⟩, h, rfl⟩, hl⟩
    rw [List.mem_filter] at h
    have : d = db := by simpa using h.2
    subst this; exact ⟨⟨c, h.1⟩, hl⟩
  · rintro ⟨⟨c, h⟩, hl⟩
    exact ⟨⟨(c, db, x), by rw [List.mem_filter]; exact ⟨h, by simp⟩, rfl⟩, hl⟩

/-- without a selected database SHOW TABLES is an error, never a wrong list -/
theorem show_tables_needs_database (all : List Col) (pat : Option String) : showTables all none none pat = none := by
  simp [showTables]

/-- **SHOW COLUMNS FROM db.t [LIKE p] / DESCRIBE db.t / COM_FIELD_LIST**: exactly the columns of that table whose
    name matches, in table order, with their declared types -/
theorem show_columns_exact (all : List Col) (tbl db : String) (hdb : db ≠ "") (cur : Option String) (pat : Option String) :
    showColumns all tbl (some db) cur pat =
      ((all.filter (fun c => c.tbl == tbl && c.db == db)).filter (fun c => likeOpt pat c.name)).map (fun c => (c.name, c.ty)) := by
  unfold showColumns
  simp only [hdb, if_false]
  congr 2
  apply List.filter_congr
  intro c _
  have : (db == "") = false := by simpa using hdb
  simp [this]

/-- the SHOW statements are answered from the three catalog tables with exactly these filters (extracted WHERE templates) -/
theorem show_filters_shape :
    Mimic.Extracted.Catalog.whereTemplates = ["column_name LIKE '{like}'", "schema_name LIKE '{like}'", "table_name = '{table}'",
      "table_name LIKE '{like}'", "table_schema = '{db}'"] ∧
    Mimic.Extracted.Catalog.fromTables = ["'information_schema.columns'", "'information_schema.schemata'", "'information_schema.statistics'",
      "'information_schema.tables'"] := by decide

/-! ### built-in entries -/

/-- the built-in catalog databases and their three central tables are always listed, whatever the application declares -/
theorem builtins_always_listed (declared : List Col) :
    "information_schema" ∈ showDatabases (declared ++ Mimic.Extracted.Catalog.builtin) none ∧
    "mysql" ∈ showDatabases (declared ++ Mimic.Extracted.Catalog.builtin) none := by
  have h1 : ∃ x ∈ Mimic.Extracted.Catalog.builtin, (x.cat, x.db) = ("def", "information_schema") := by decide +kernel
  have h2 : ∃ x ∈ Mimic.Extracted.Catalog.builtin, (x.cat, x.db) = ("def", "mysql") := by decide +kernel
  constructor
  · rw [show_databases_exact]
    refine ⟨⟨"def", ?_⟩, rfl⟩
    rw [(databases_exactly_once _ _).2]
    obtain ⟨x, hx, he⟩ := h1
    exact ⟨x, List.mem_append_right _ hx, he⟩
  · rw [show_databases_exact]
    refine ⟨⟨"def", ?_⟩, rfl⟩
    rw [(databases_exactly_once _ _).2]
    obtain ⟨x, hx, he⟩ := h2
    exact ⟨x, List.mem_append_right _ hx, he⟩

/-! ### non-vacuity -/

private def m1 : Mapping := [("def", [("db1", [("t", [("a", "INT"), ("b", "TEXT")]), ("u", [("a", "INT")])]), ("db2", [("t", [("z", "DATE")])])])]

example : (flatten m1).filter (sameTable "def" "db1" "t") = [⟨"def", "db1", "t", "a", "INT"⟩, ⟨"def", "db1", "t", "b", "TEXT"⟩] := by decide
example : showColumns (flatten m1) "t" (some "db2") none none = [("z", "DATE")] := by decide +kernel
example : showTables (flatten m1) (some "db1") none none = some ["t", "u"] := by decide +kernel
example : like ['v', '%', '_', 'n'] ['v', 'e', 'r', 's', 'i', 'o', 'n'] = true ∧ like ['v', 'e'] ['v', 'e', 'r'] = false ∧
    like ['a', '.', 'c'] ['a', 'b', 'c'] = false := by simp [like]

/-! ### COM_FIELD_LIST on the translated handler (`Mimic.Extracted.HandlersCode`) -/
section handlers
open Mimic.Extracted.HandlersCode MimicProofs.HandlersCode
variable {S : Type} [DecidableEq S]

/-- **COM_FIELD_LIST sends one definition per row of the catalog's answer, in its order**: `handle_field_list`, translated,
    asks for the SHOW COLUMNS text of the packet (`fls`, schema.py), and writes for every row of the answer — in order,
    nothing skipped or repeated — the definition built from that row and the packet's table name, then one terminator;
    a failing catalog query writes nothing. -/
theorem field_list_is_code (E : Mimic.Py.Env S) (app : S → Option (ResultSet S)) (fls : Mimic.Extracted.ParsersCode.ComFieldList S → S)
    (fcd : Nat → S → Mimic.Py.Bytes → Mimic.Py.Bytes) (c : Connection S) (data : Mimic.Py.Bytes) :
    match Mimic.Extracted.ParsersCode.parse_com_field_list E c.client_charset data with
    | none => handle_field_list E app fls fcd c data = .error c
    | some f =>
      match app (fls f) with
      | none => handle_field_list E app fls fcd c data = .error c
      | some rs =>
        ∃ (a l w fl : Nat),
          let sent := c.out ++ rs.rows.rows.map (fun r => Ev.write (fcd c.server_charset f.table r) false)
          handle_field_list E app fls fcd c data
            = if rs.rows.boom then .error { c with out := sent }
              else .ok { c with out := sent ++ [Ev.write (ok_or_eof c a l w fl) true] } :=
  handle_field_list_spec E app fls fcd c data

open MimicProofs.CommandLoop in
/-- **A whole COM_FIELD_LIST exchange on the code** (one iteration of the generated command loop on `0x04 · payload`): one
    column definition per row of the catalog's answer — every one of them, in the catalog's order, none twice —, then exactly one
    terminator; exactly one ERR instead when the payload does not parse or the catalog statement is rejected, and exactly one ERR
    after the definitions sent so far iff the row source raised; the loop goes on. -/
theorem code_field_list_exchange (E : Mimic.Py.Env S) (cp : S → Nat) (pc : Nat → Mimic.Py.Bytes) (coldef : Nat → Nat → Mimic.Py.Bytes)
    (parse : Connection S → Mimic.Py.Bytes → Option (ComStmtExecute S)) (app : S → Option (ResultSet S))
    (ur : S → Bool) (fls : Mimic.Extracted.ParsersCode.ComFieldList S → S) (fcd : Nat → S → Mimic.Py.Bytes → Mimic.Py.Bytes)
    (other : Nat → Connection S → Mimic.Py.Bytes → Except (Connection S) (Connection S)) (err : Connection S → Mimic.Py.Bytes) (af : Nat → Connection S → Mimic.Py.Bytes → Option (Connection S))
    (c : Connection S) (rest : Mimic.Py.Bytes) :
    let c1 : Connection S := { c with _executing := true }
    match Mimic.Extracted.ParsersCode.parse_com_field_list E c.client_charset rest with
    | none => command_step E cp pc coldef parse app ur fls fcd other err af c (4 :: rest)
        = ({ c with _executing := false, out := c.out ++ [Ev.write (err { c with _executing := false }) true, Ev.reset_seq] }, true)
    | some f =>
      match app (fls f) with
      | none => command_step E cp pc coldef parse app ur fls fcd other err af c (4 :: rest)
          = ({ c with _executing := false, out := c.out ++ [Ev.write (err { c with _executing := false }) true, Ev.reset_seq] }, true)
      | some rs =>
        ∃ (a l w fl : Nat),
          let defs := rs.rows.rows.map (fun r => Ev.write (fcd c.server_charset f.table r) false)
          command_step E cp pc coldef parse app ur fls fcd other err af c (4 :: rest)
            = if rs.rows.boom then
                ({ c with _executing := false,
                          out := c.out ++ defs ++ [Ev.write (err { c with _executing := false, out := c.out ++ defs }) true, Ev.reset_seq] }, true)
              else
                ({ c with _executing := false, out := c.out ++ defs ++ [Ev.write (ok_or_eof c1 a l w fl) true, Ev.reset_seq] }, true) :=
  field_list_exchange E cp pc coldef parse app ur fls fcd other err af c rest

end handlers

end MimicProps.C16
