import MimicProofs.Control
import Mimic.Extracted.ServerCode
import MimicProofs.ControlCode
/-!
# C18 — Connection ids are unique among live connections and address the right one

Property theorems over the `LocalControl` model, for **every** history of arrivals and departures
(`List Op`, no bound on length, so any number of wrap-arounds of the 16-bit sequence with any set of
survivors is covered).  `mk sid` is the registry the code builds: sequence space `N = _MAX_CONNECTION_SEQ`,
`_CONNECTION_ID_BITS` and `_MAX_SERVER_ID` as extracted from `/repo` (`Mimic.Extracted.Control`).
-/
namespace MimicProps.C18
open Mimic.Control Mimic.Extracted.Control

/-- After any history, all live ids are pairwise distinct. -/
theorem live_ids_nodup (sid : Nat) (ops : List Op) : (run (mk sid) ops).live.Nodup :=
  (run_inv ops _ (mk_inv sid)).2.1

/-- After any history, every live id is `(server_id mod 2^16)·2^16 + k` with `k < 2^16`:
    its upper half is the configured server id, for every configured value (0 included),
    and it fits 32 bits. -/
theorem live_ids_prefix (sid : Nat) (ops : List Op) :
    ∀ id ∈ (run (mk sid) ops).live, id / 65536 = sid % 65536 ∧ id < 2 ^ 32 := by
  intro id hid
  have hinv := run_inv ops _ (mk_inv sid)
  obtain ⟨r, hr, he⟩ := hinv.2.2.2 id hid
  rw [(run_frame ops _).1, (run_frame ops _).2] at *
  simp only [mk, mkN, bits_eq, maxServerId_eq, N_eq] at he hr
  have : sid % 65536 < 65536 := Nat.mod_lt _ (by decide)
  subst he
  constructor <;> omega

/-- In every reachable state, a new connection is admitted iff fewer than 2^16 are live
    (otherwise `TooManyConnections`, answered with ERR 1040): the unbounded skip loop of
    `_new_connection_id` always finds a free id within `N` probes. -/
theorem add_succeeds_iff_not_full (sid : Nat) (ops : List Op) :
    (add (run (mk sid) ops)).isSome ↔ (run (mk sid) ops).live.length < 65536 := by
  have := add_isSome_iff _ (run_inv ops _ (mk_inv sid))
  rw [(run_frame ops _).2] at this
  simpa [mk, mkN, N_eq] using this

/-- The id handed to a new connection is not the id of any connection that is still alive. -/
theorem new_id_fresh (sid : Nat) (ops : List Op) (id : Nat) (c' : Ctl)
    (h : add (run (mk sid) ops) = some (id, c')) :
    id ∉ (run (mk sid) ops).live ∧ c'.live = id :: (run (mk sid) ops).live :=
  let r := add_spec _ (run_inv ops _ (mk_inv sid)) id c' h
  ⟨r.2.1, r.2.2.1⟩

/-- When the registry is full, service resumes as soon as one live connection ends. -/
theorem resumes_after_remove (sid : Nat) (ops : List Op) (id : Nat)
    (hid : id ∈ (run (mk sid) ops).live) :
    (add (run (mk sid) (ops ++ [Op.remove id]))).isSome := by
  rw [add_succeeds_iff_not_full]
  have hinv := run_inv ops _ (mk_inv sid)
  have hlen := inv_length_le _ hinv
  rw [(run_frame ops _).2] at hlen
  have hn : (mk sid).n = 65536 := by simp [mk, mkN, N_eq]
  rw [hn] at hlen
  have hrun : run (mk sid) (ops ++ [Op.remove id]) = remove (run (mk sid) ops) id := by
    simp [run, List.foldl_append, step]
  rw [hrun]
  generalize run (mk sid) ops = c at *
  simp only [remove]
  have := List.length_erase_of_mem hid
  have hpos : 0 < c.live.length := List.length_pos_of_mem hid
  omega

/-- `kill` addresses exactly the registered ids. -/
theorem finds_iff_live (c : Ctl) (id : Nat) : finds c id = true ↔ id ∈ c.live := by
  simp [finds]

/-- The same three facts for every size `n > 0` of the sequence space (what the small-`n` runs of the
    correspondence check exercise). -/
theorem general_n (n bits ms sid : Nat) (hn : 0 < n) (ops : List Op) :
    let c := run (mkN n bits ms sid) ops
    c.live.Nodup ∧ ((add c).isSome ↔ c.live.length < n) ∧
      ∀ id ∈ c.live, ∃ r, r < n ∧ id = (sid % ms) * 2 ^ bits + r := by
  have hinv := run_inv ops _ (mkN_inv n bits ms sid hn)
  have hf := run_frame ops (mkN n bits ms sid)
  refine ⟨hinv.2.1, ?_, ?_⟩
  · have := add_isSome_iff _ hinv; rw [hf.2] at this; simpa [mkN] using this
  · intro id hid
    obtain ⟨r, hr, he⟩ := hinv.2.2.2 id hid
    rw [hf.1, hf.2] at *
    exact ⟨r, by simpa [mkN] using hr, by simpa [mkN] using he⟩

/-- non-vacuity: ids 0 and 1 are issued, 0 leaves; the theorems apply to this concrete state. -/
example : (run (mk 7) [Op.add, Op.add, Op.remove (7 * 65536)]).live = [7 * 65536 + 1] := by decide

/-- non-vacuity of the full-registry branch on a small sequence space: with n = 2 the third arrival
    is refused and admitted again after a departure. -/
example : (add (run (mkN 2 16 65536 1) [Op.add, Op.add])).isSome = false ∧
          (add (run (mkN 2 16 65536 1) [Op.add, Op.add, Op.remove 65536])).isSome = true := by decide

/-! ### the code itself (`Mimic.Extracted.ControlCode`, regenerated from `/repo` by `harness/pytrans2.py`) -/

open MimicProofs.ControlCode in
/-- **The translated `LocalControl` (`add` with `_new_connection_id` and its `while` loop, `remove`, `utils.seq`) refines
    the model along every history**: after any sequence of arrivals and departures its state abstracts to the model's
    state. The fuel given to the translated `while` loop is the size of the sequence space; that it is never exhausted
    is part of the statement (an exhausted loop would make `add` fail where the model's `add` succeeds). -/
theorem code_refines_model (sid n bits ms : Nat) (hn : 0 < n) (ops : List Op) :
    abs (codeRun (Mimic.Extracted.ControlCode.init sid n bits ms) ops) = run (mkN n bits ms sid) ops := by
  have h := codeRun_refines ops (Mimic.Extracted.ControlCode.init sid n bits ms) rfl
    (by rw [abs_init]; exact mkN_inv n bits ms sid hn)
  rw [h, abs_init]

open MimicProofs.ControlCode in
/-- **code level: ids of live connections are pairwise distinct, carry the server prefix, and a new connection is
    admitted iff fewer than `n` are registered** — for the translated code, every sequence-space size and every history -/
theorem code_ids_unique_and_admission (sid n bits ms : Nat) (hn : 0 < n) (ops : List Op) :
    let s := codeRun (Mimic.Extracted.ControlCode.init sid n bits ms : LC) ops
    (keys s).Nodup ∧ ((Mimic.Extracted.ControlCode.add s._MAX_CONNECTION_SEQ s 0).isSome ↔ (keys s).length < n) ∧
      ∀ id ∈ keys s, ∃ r, r < n ∧ id = (sid % ms) * 2 ^ bits + r := by
  intro s
  have href := code_refines_model sid n bits ms hn ops
  have hg := general_n n bits ms sid hn ops
  simp only at hg
  rw [← href] at hg
  have hw : WF s ∧ Inv (abs s) := by
    have : ∀ (ops : List Op) (s0 : LC), WF s0 → Inv (abs s0) → WF (codeRun s0 ops) ∧ Inv (abs (codeRun s0 ops)) := by
      intro ops
      induction ops with
      | nil => intro s0 h1 h2; exact ⟨h1, h2⟩
      | cons op ops ih =>
        intro s0 h1 h2
        have hs := codeStep_refines s0 h1 h2 op
        have hi' : Inv (abs (codeStep s0 op)) := by rw [hs.1]; exact step_inv _ h2 op
        exact ih (codeStep s0 op) hs.2 hi'
    exact this ops _ rfl (by rw [abs_init]; exact mkN_inv n bits ms sid hn)
  refine ⟨?_, ?_, ?_⟩
  · have h1 : (keys s).reverse.Nodup := by have := hg.1; simpa [abs] using this
    exact (List.reverse_perm (keys s)).nodup h1
  · have hadd := add_refines s hw.1 0
    have h2 := hg.2.1
    rw [← hadd] at h2
    simpa [abs, keys] using h2
  · intro id hid
    exact hg.2.2 id (by simpa [abs] using hid)

/-- non-vacuity at code level: the translated class on a sequence space of two: two arrivals, the third is refused -/
example : ((Mimic.Extracted.ControlCode.add 2 (MimicProofs.ControlCode.codeRun
      (Mimic.Extracted.ControlCode.init 1 2 16 65536 : MimicProofs.ControlCode.LC) [Op.add, Op.add]) 0).isSome = false) := by decide

/-! ### the accept callback (`Mimic.Extracted.ServerCode`, read off `MysqlServer._client_connected_cb` on every run) -/
section server
open Mimic.Extracted.ServerCode

/-- **a client refused because the registry is full gets ERR 1040 and leaves no trace in the registry**: no `remove` is issued for
    it (its id was never handed out: a `remove` would hit whoever holds the id the constructor left in the attribute), and the
    only id ever removed is the one `control.add` returned for this very connection -/
theorem code_full_registry_refuses (s : StartOut) :
    (client_connected_cb .ok .too_many s).1 = [.factory, .add, .write_err (some 1040)] ∧
    ∀ f a x, SEv.remove x ∈ (client_connected_cb f a s).1 → a = .id ∧ x = .added_id := by
  refine ⟨by cases s <;> rfl, ?_⟩
  intro f a x
  cases f <;> cases a <;> cases s <;> simp [client_connected_cb]

end server

end MimicProps.C18
