import MimicProofs.Script
import Mimic.Reply
import MimicProofs.Reply
import MimicProofs.Wire
import MimicProofs.PacketsCode
import Mimic.Extracted.Handlers
import Mimic.Extracted.Protocol
import MimicProofs.HandlersCode
import MimicProofs.CommandLoop
import MimicProofs.Monotone
import MimicProofs.Frame
import MimicProofs.ChangeUser
/-!
# C03 — Every command gets exactly one complete, well-formed response (lockstep)

Two layers:
* machine theorems over **arbitrary handler scripts** (`Mimic.Conn`): whatever happens between reading a command
  and being idle again — the application resuming, the client blocking / unblocking, kills, the client closing its
  side — the bytes written for that command are the script's own emissions or a prefix of them closed by exactly
  one ERR, and nothing else is written;
* script theorems (`Mimic.Script`): for every command of the supported set, both `CLIENT_DEPRECATE_EOF` settings and
  every application plan (no result, any number of columns and rows, failure before the first row / at row k /
  `MysqlError`), the undisturbed response of the handler script is accepted by a strict client grammar.
-/
namespace MimicProps.C03
open Mimic.Conn Mimic.Script

/-- **Response shape, for every script and every interleaving of internal events.** -/
theorem response_is_script_or_prefix_err (s : S) (script : List Op) (evs : List Ev)
    (hidle : s.phase = .idle) (hl : s.lost = false) (hlc : ∀ op ∈ script, op.lifecycle = false)
    (hev : ∀ e ∈ evs, e.internal = true) :
    CmdInv s.written (emits script) (runAll (step s (.cmd script)) evs) :=
  runAll_inv _ _ evs hev _ (cmd_establishes s script hidle hl hlc)

/-- … in particular, once the connection is idle again, exactly one good response has been written -/
theorem idle_again_good (s : S) (script : List Op) (evs : List Ev)
    (hidle : s.phase = .idle) (hl : s.lost = false) (hlc : ∀ op ∈ script, op.lifecycle = false)
    (hev : ∀ e ∈ evs, e.internal = true)
    (hback : (runAll (step s (.cmd script)) evs).phase = .idle) :
    ∃ resp, (runAll (step s (.cmd script)) evs).written = s.written ++ resp ∧ GoodResp (emits script) resp := by
  have h := response_is_script_or_prefix_err s script evs hidle hl hlc hev
  rcases h with ht | ⟨_, hm⟩
  · rcases ht with hc | ⟨w, r, e, hp⟩ | ⟨w, r, e, hp⟩ <;> rw [hback] at * <;> simp_all
  · rw [hback] at hm; exact hm

/-- **Quiescence**: while no command is in flight nothing is written — an idle connection reacts to internal
    events only by staying idle or by terminating. -/
theorem quiescent_when_idle (s : S) (ev : Ev) (hidle : s.phase = .idle) (hev : ev.internal = true) :
    (step s ev).phase = .idle ∧ (step s ev).written = s.written ∨ Terminating (step s ev) := by
  cases ev with
  | handshake _ _ _ => simp [Ev.internal] at hev
  | cmd _ => simp [Ev.internal] at hev
  | lose => simp [Ev.internal] at hev
  | resume => left; simp only [step, hidle]; split <;> exact ⟨hidle, rfl⟩
  | block => left; simp [step, hidle, S.written]
  | unblock => left; simp only [step, hidle]; split <;> simp [S.written, hidle]
  | kill k =>
    left
    cases k with
    | query => simp only [step, hidle]; split <;> simp [S.written, hidle]
    | conn => simp [step, hidle, S.written]
  | deliver =>
    simp only [step]
    split
    · right; simp only [hidle]; exact throwStart_terminating _ _
    · left; exact ⟨hidle, rfl⟩
  | eof => right; simp only [step, hidle]; exact closeSession_terminating _ _

/-- handler scripts never touch the session life cycle (hypothesis of the machine theorems, discharged here) -/
theorem scriptOf_no_lifecycle (dep : Bool) (cmd : Cmd) : ∀ op ∈ scriptOf dep cmd, op.lifecycle = false := by
  have hrow : ∀ d steps, ∀ op ∈ rowOps d steps, op.lifecycle = false := by
    intro d steps
    induction steps with
    | nil => intro op h; simp [rowOps] at h
    | cons st r ih =>
      intro op h
      cases st with
      | row id s =>
        cases d <;> simp only [rowOps, Bool.false_eq_true, if_false, if_true, List.append_assoc, List.cons_append,
          List.nil_append, List.mem_cons, List.mem_append] at h
        · rcases h with rfl | rfl | h
          · rfl
          · rfl
          · exact ih op (by simpa using h)
        · rcases h with rfl | rfl | rfl | h
          · rfl
          · rfl
          · rfl
          · exact ih op h
      | boom s => simp [rowOps] at h; rcases h with rfl | rfl <;> rfl
  have hcd : ∀ d n, ∀ op ∈ colDefs d n, op.lifecycle = false := by
    intro d n op h
    simp only [colDefs, List.mem_flatten, List.mem_replicate] at h
    obtain ⟨l, ⟨_, rfl⟩, hop⟩ := h
    cases d <;> simp at hop
    · subst hop; rfl
    · rcases hop with rfl | rfl <;> rfl
  have hcall : ∀ p, ∀ op ∈ callOps p, op.lifecycle = false := by
    intro p op h
    unfold callOps at h
    cases hf : p.fail <;> simp only [hf] at h
    · cases hk : p.selfKill <;> simp [hk] at h
      · subst h; rfl
      · rcases h with rfl | rfl <;> rfl
    · simp at h; subst h; rfl
    · simp at h; rcases h with rfl | rfl <;> rfl
  intro op h
  cases cmd with
  | query p =>
    simp only [scriptOf, List.mem_append] at h
    rcases h with h | h
    · exact hcall p op h
    · split at h
      · simp at h
      · split at h
        · simp at h; rcases h with rfl | rfl <;> rfl
        · simp only [List.mem_append, List.mem_cons, List.mem_nil_iff, or_false] at h
          rcases h with (((rfl | h) | h) | h) | h
          · rfl
          · exact hcd _ _ op h
          · split at h <;> simp at h; subst h; rfl
          · exact hrow _ _ op h
          · rcases h with rfl | rfl <;> rfl
  | ping => simp [scriptOf] at h; rcases h with rfl | rfl <;> rfl
  | initDb f => simp [scriptOf] at h; rcases h with rfl | rfl | rfl <;> rfl
  | quit => simp [scriptOf] at h; subst h; rfl
  | prepare np =>
    simp only [scriptOf, List.mem_append, List.mem_cons, List.mem_nil_iff, or_false] at h
    rcases h with ((rfl | h) | h) | rfl
    · rfl
    · exact hcd _ _ op h
    · split at h <;> simp at h; subst h; rfl
    · rfl
  | execute known cursor p =>
    simp only [scriptOf] at h
    split at h
    · simp at h; subst h; rfl
    · simp only [List.mem_append] at h
      rcases h with h | h
      · exact hcall p op h
      · split at h
        · simp at h
        · split at h
          · simp at h; rcases h with rfl | rfl <;> rfl
          · simp only [List.mem_append, List.mem_cons, List.mem_nil_iff, or_false] at h
            rcases h with ((rfl | rfl) | h) | h
            · rfl
            · rfl
            · exact hcd _ _ op h
            · split at h
              · simp at h; rcases h with rfl | rfl <;> rfl
              · simp only [List.mem_append, List.mem_cons, List.mem_nil_iff, or_false] at h
                rcases h with (h | h) | h
                · split at h <;> simp at h; rcases h with rfl | rfl <;> rfl
                · exact hrow _ _ op h
                · rcases h with rfl | rfl <;> rfl
  | fetch known hc n rem =>
    simp only [scriptOf] at h
    split at h
    · simp at h; subst h; rfl
    · split at h
      · simp at h; subst h; rfl
      · simp only [List.mem_append, List.mem_cons, List.mem_nil_iff, or_false] at h
        rcases h with (h | rfl) | h
        · exact hrow _ _ op h
        · rfl
        · rcases h with rfl | rfl <;> rfl
  | stmtReset k => simp only [scriptOf] at h; split at h <;> simp at h <;> (try rcases h with rfl | rfl | rfl) <;> (try subst h) <;> rfl
  | stmtClose => simp [scriptOf] at h
  | longData => simp [scriptOf] at h
  | fieldList p =>
    simp only [scriptOf, List.mem_append] at h
    rcases h with h | h
    · exact hcall p op h
    · split at h
      · simp at h
      · simp only [List.mem_append, List.mem_cons, List.mem_nil_iff, or_false] at h
        rcases h with h | h
        · exact hcd _ _ op h
        · rcases h with rfl | rfl <;> rfl
  | changeUser ok => simp only [scriptOf] at h; split at h <;> simp at h <;> rcases h with rfl | rfl | rfl <;> rfl
  | changeUserRaised => simp [scriptOf] at h; rcases h with rfl | rfl | rfl <;> rfl
  | unknown => simp [scriptOf] at h; subst h; rfl
  | malformed => simp [scriptOf] at h; subst h; rfl

theorem resp_callOps (p : Plan) (rest : List Op) :
    resp (callOps p ++ rest) =
      match p.fail with
      | .none => resp rest
      | .generic => [.err .generic]
      | .mysql => [.err .mysql] := by
  unfold callOps
  cases hf : p.fail <;> simp only [hf]
  · cases hk : p.selfKill <;> simp [resp]
  · simp [resp]
  · simp [resp]

/-- **Every handler's undisturbed response is accepted by the strict client grammar**, for every command of
    the supported set, both `CLIENT_DEPRECATE_EOF` settings, every statement / cursor state and every application
    plan: OK, ERR, a complete result set (count, that many definitions, the metadata EOF only without
    DEPRECATE_EOF, rows, exactly one terminator — or one ERR if the source fails at row k), a prepare-OK block, or
    nothing for the no-reply commands (also for unknown statement ids). -/
theorem response_accepted (dep : Bool) (cmd : Cmd) : accepts dep cmd (resp (scriptOf dep cmd)) = true := by
  cases cmd with
  | query p =>
    simp only [scriptOf, accepts, resp_callOps]
    cases hf : p.fail <;> simp only [hf]
    · simp only [ne_eq, not_true_eq_false, if_false]
      split
      · simp [resp, acceptResult]
      · rename_i hn
        simp only [List.append_assoc, List.cons_append, List.nil_append, resp, resp_colDefs, acceptResult,
          takeColDefs_replicate]
        have hpos : 0 < p.ncols := Nat.pos_of_ne_zero hn
        simp only [hpos, decide_true, Bool.true_and]
        cases dep
        · simp only [Bool.false_eq_true, if_false, List.cons_append, List.nil_append, resp]
          exact acceptRows_rowOps false p.rows _ (by simp [resp, acceptRows])
        · simp only [if_true, List.nil_append]
          exact acceptRows_rowOps false p.rows _ (by simp [resp, acceptRows])
    · simp [acceptResult]
    · simp [acceptResult]
  | ping => simp [scriptOf, accepts, resp, acceptSimple]
  | initDb f => cases f <;> simp [scriptOf, accepts, resp, acceptSimple]
  | quit => simp [scriptOf, accepts, resp]
  | prepare np =>
    simp only [scriptOf, accepts, List.append_assoc, List.cons_append, List.nil_append, resp, resp_colDefs, acceptPrepare,
      takeColDefs_replicate]
    by_cases h0 : np = 0
    · subst h0; simp [resp]
    · cases dep
      · have hpos : 0 < np := Nat.pos_of_ne_zero h0
        simp [h0, resp, hpos]
      · simp [h0, resp]
  | execute known cursor p =>
    simp only [scriptOf, accepts]
    cases known
    · simp [resp, acceptResult]
    · simp only [Bool.not_true, Bool.false_eq_true, if_false, resp_callOps]
      cases hf : p.fail <;> simp only [hf]
      · simp only [ne_eq, not_true_eq_false, if_false]
        split
        · simp [resp, acceptResult]
        · rename_i hn
          have hpos : 0 < p.ncols := Nat.pos_of_ne_zero hn
          simp only [List.append_assoc, List.cons_append, List.nil_append, resp, resp_colDefs]
          cases cursor
          · simp only [Bool.false_eq_true, if_false, Bool.false_and, Bool.or_false, acceptResult, takeColDefs_replicate,
              hpos, decide_true, Bool.true_and]
            cases dep
            · simp only [Bool.false_eq_true, if_false, List.cons_append, List.nil_append, resp, List.append_assoc]
              exact acceptRows_rowOps true p.rows _ (by simp [resp, acceptRows])
            · simp only [if_true, List.nil_append]
              exact acceptRows_rowOps true p.rows _ (by simp [resp, acceptRows])
          · simp [resp, acceptCursorOpen, takeColDefs_replicate, hpos]
      · simp [acceptResult]
      · simp [acceptResult]
  | fetch known hc n rem =>
    simp only [scriptOf, accepts]
    cases known
    · simp [resp, acceptRows]
    · cases hc
      · simp [resp, acceptRows]
      · simp only [Bool.not_true, Bool.false_eq_true, if_false, List.append_assoc]
        exact acceptRows_rowOps false _ _ (by simp [resp, acceptRows])
  | stmtReset k => cases k <;> simp [scriptOf, accepts, resp, acceptSimple]
  | stmtClose => simp [scriptOf, accepts, resp]
  | longData => simp [scriptOf, accepts, resp]
  | fieldList p =>
    simp only [scriptOf, accepts, resp_callOps]
    cases hf : p.fail <;> simp only [hf]
    · simp only [ne_eq, not_true_eq_false, if_false, resp_colDefs]
      exact acceptFieldList_colDefs _ _ (by simp [resp, acceptFieldList])
    · simp [acceptFieldList]
    · simp [acceptFieldList]
  | changeUser ok => cases ok <;> simp [scriptOf, accepts, resp, acceptSimple]
  | changeUserRaised => simp [scriptOf, accepts, resp, acceptSimple]
  | unknown => simp [scriptOf, accepts, resp, acceptSimple]
  | malformed => simp [scriptOf, accepts, resp, acceptSimple]

/-- the script's undisturbed response is its emissions, or its emissions closed by one ERR (links `resp` to the
    machine invariant's `GoodResp`) -/
theorem resp_good (ops : List Op) (h : ∀ op ∈ ops, op ≠ .quit ∧ op ≠ .raise_ .authFailed) :
    GoodResp (emits ops) (resp ops) := by
  induction ops with
  | nil => left; rfl
  | cons op r ih =>
    have hr := ih (fun o ho => h o (by simp [ho]))
    have hop := h op (by simp)
    have cons_good : ∀ p, GoodResp (emits r) (resp r) → GoodResp (p :: emits r) (p :: resp r) := by
      intro p hg
      rcases hg with hg | ⟨pre, c, hp, hg⟩
      · left; rw [hg]
      · right; exact ⟨p :: pre, c, by simpa using hp, by rw [hg]; rfl⟩
    cases op with
    | emit p => simpa [emits, resp] using cons_good p hr
    | drain => simpa [emits, resp] using hr
    | call c s rz =>
      cases rz
      · simpa [emits, resp] using hr
      · right; exact ⟨[], .generic, by simp [emits], by simp [resp]⟩
    | callRet c rz =>
      cases rz
      · simpa [emits, resp] using hr
      · right; exact ⟨[], .generic, by simp [emits], by simp [resp]⟩
    | pull s => simpa [emits, resp] using hr
    | yield_ => simpa [emits, resp] using hr
    | raise_ e =>
      cases e with
      | mysqlError => right; exact ⟨[], .mysql, by simp [emits], by simp [resp]⟩
      | authFailed => exact absurd rfl hop.2
      | generic => right; exact ⟨[], .generic, by simp [emits], by simp [resp]⟩
      | cancelled => right; exact ⟨[], .generic, by simp [emits], by simp [resp]⟩
      | connLost => right; exact ⟨[], .generic, by simp [emits], by simp [resp]⟩
    | selfKill k => simpa [emits, resp] using hr
    | quit => exact absurd rfl hop.1

/-- non-vacuity: an idle, healthy connection exists and a concrete command's script satisfies the hypotheses -/
example : ({ phase := .idle } : S).phase = .idle ∧ ({ phase := .idle } : S).lost = false ∧
    (∀ op ∈ scriptOf false (.query { ncols := 2, rows := [.row 1 false, .row 2 true] }), op.lifecycle = false) :=
  ⟨rfl, rfl, scriptOf_no_lifecycle _ _⟩


/-! ### byte level: the packets every response is made of -/

open Mimic.Wire Mimic.Reply MimicProofs.Reply in
/-- **OK packets decode to what was sent** (4.1 protocol; all counters in range) -/
theorem ok_roundtrip (trans : Bool) (o : Ok) (h1 : o.affected < 2 ^ 64) (h2 : o.lastId < 2 ^ 64) (h3 : o.status < 2 ^ 16) (h4 : o.warnings < 2 ^ 16) :
    decOk (encOk true trans o) = some o := by
  obtain ⟨e, a, l, st, w⟩ := o
  simp only at h1 h2 h3 h4
  have hs : st < 256 ^ 2 := by omega
  have hw : w < 256 ^ 2 := by omega
  cases e <;>
    simp [encOk, decOk, List.append_assoc, decLen_encLen _ h1, decLen_encLen _ h2, readUInt_leN 2 st hs,
      (by simpa using readUInt_leN 2 w hw [] : readUInt 2 (leN 2 w) = some (w, []))]

open Mimic.Wire Mimic.Reply in
/-- EOF packets decode to what was sent -/
theorem eof_roundtrip (e : Eof) (h1 : e.warnings < 2 ^ 16) (h2 : e.status < 2 ^ 16) : decEof (encEof true e) = some e := by
  obtain ⟨w, st⟩ := e
  simp only at h1 h2
  have hs : st < 256 ^ 2 := by omega
  have hw : w < 256 ^ 2 := by omega
  simp [encEof, decEof, readUInt_leN 2 w hw, (by simpa using readUInt_leN 2 st hs [] : readUInt 2 (leN 2 st) = some (st, []))]

open Mimic.Wire Mimic.Reply in
/-- ERR packets decode to the code, SQLSTATE and message that were sent -/
theorem err_roundtrip (e : Err) (h1 : e.code < 2 ^ 16) (h2 : e.state.length = 5) : decErr (encErr true e) = some e := by
  obtain ⟨c, st, m⟩ := e
  simp only at h1 h2
  have hc : c < 256 ^ 2 := by omega
  simp [encErr, decErr, List.append_assoc, readUInt_leN 2 c hc, h2]

open Mimic.Wire Mimic.Reply MimicProofs.Reply in
/-- **Every column definition is decodable by a standard client** and yields exactly the fields that were sent —
    the plain form and the COM_FIELD_LIST form with a default value. -/
theorem coldef_roundtrip (c : ColDef)
    (hs : c.schema.length < 2 ^ 64) (ht : c.table.length < 2 ^ 64) (ho : c.orgTable.length < 2 ^ 64) (hn : c.name.length < 2 ^ 64)
    (hon : c.orgName.length < 2 ^ 64) (hcs : c.charset < 2 ^ 16) (hl : c.length < 2 ^ 32) (hty : c.type < 2 ^ 8) (hf : c.flags < 2 ^ 16)
    (hd : c.decimals < 2 ^ 8) (hdef : ∀ d, c.default = some (some d) → d ≠ [] ∧ d.length < 2 ^ 64) :
    decColDef c.default.isSome (encColDef c) = some c := by
  obtain ⟨sc, tb, ot, nm, on, cs, ln, ty, fg, dc, df⟩ := c
  simp only at hs ht ho hn hon hcs hl hty hf hd hdef
  have e1 : cs < 256 ^ 2 := by omega
  have e2 : ln < 256 ^ 4 := by omega
  have e3 : ty < 256 ^ 1 := by omega
  have e4 : fg < 256 ^ 2 := by omega
  have e5 : dc < 256 ^ 1 := by omega
  have e6 : (0 : Nat) < 256 ^ 2 := by decide
  unfold decColDef encColDef
  simp only [List.append_assoc]
  have hcat : ([0x64, 0x65, 0x66] : Bytes).length < 2 ^ 64 := by decide
  simp only [decStrStrict_encStr _ _ hcat, decStrStrict_encStr _ _ hs, decStrStrict_encStr _ _ ht, decStrStrict_encStr _ _ ho,
    decStrStrict_encStr _ _ hn, decStrStrict_encStr _ _ hon, decLen_encLen 0x0C (by decide), readUInt_leN 2 cs e1, readUInt_leN 4 ln e2,
    readUInt_leN 1 ty e3, readUInt_leN 2 fg e4, readUInt_leN 1 dc e5, readUInt_leN 2 0 e6, ne_eq, not_true_eq_false, if_false]
  cases df with
  | none => simp
  | some d =>
    cases d with
    | none =>
      simp only [Option.isSome_some, if_true]
      have : decStrStrict (encLen 0) = some ([], []) := by decide
      simp [this]
    | some d =>
      obtain ⟨hne, hlen⟩ := hdef d rfl
      simp only [Option.isSome_some, if_true]
      have := decStrStrict_encStr d [] hlen
      rw [List.append_nil] at this
      simp [this, hne]

open Mimic.Wire Mimic.Reply MimicProofs.Reply in
/-- **Packet kinds are told apart by their first byte**: OK starts 0x00 (or 0xFE as terminator), ERR 0xFF, EOF 0xFE
    and is shorter than 9 bytes; a length-encoded cell never starts with 0xFF, and one that starts with 0xFE is a
    string of at least 2^24 bytes — so a text row is never mistaken for ERR or EOF. -/
theorem packet_kinds_distinct (o : Ok) (e : Eof) (r : Err) (s : Bytes) (trans : Bool) :
    (encOk true trans o).head? = some (if o.eofHeader then 0xFE else 0x00) ∧
    (encEof true e).head? = some 0xFE ∧ (encEof true e).length = 5 ∧
    (encErr true r).head? = some 0xFF ∧
    (encStr s).head? ≠ some 0xFF ∧
    ((encStr s).head? = some 0xFE → 9 ≤ (encStr s).length) := by
  refine ⟨by simp [encOk], by simp [encEof], by simp [encEof], by simp [encErr], ?_, ?_⟩
  · unfold encStr
    cases hl : encLen s.length with
    | nil => exact absurd hl (encLen_ne_nil _)
    | cons b rest =>
      simp only [List.cons_append, List.head?_cons, ne_eq, Option.some.injEq]
      exact encLen_head_ne_ff _ b rest hl
  · intro h
    unfold encStr at h ⊢
    unfold encLen at h ⊢
    split at h
    · rename_i hn
      simp only [List.cons_append, List.nil_append, List.head?_cons, Option.some.injEq] at h
      have : (UInt8.ofNat s.length).toNat = 254 := by rw [h]; rfl
      rw [UInt8.toNat_ofNat'] at this
      omega
    · split at h
      · simp at h
      · split at h
        · simp at h
        · rename_i h1 h2 h3
          rw [if_neg h1, if_neg h2, if_neg h3]
          simp [leN_length]

/-! ### the code's own packet builders (translated from `packets.py` on every run) -/

open Mimic.Extracted.PacketsCode Mimic.Reply in
/-- **`make_ok`, `make_eof`, `make_error` and `make_column_definition_41` as translated from the source are the
    model's encoders**, for every argument (capability bit 9 = CLIENT_PROTOCOL_41, 13 = CLIENT_TRANSACTIONS) -/
theorem reply_builders_are_code (caps st a l w fl code : Nat) (eof : Bool) (msg sc tb ot nm on : Mimic.Py.Bytes) (cs ln ty fg dc : Nat)
    (isfl : Bool) (df : Option Mimic.Py.Bytes) (hdf : ∀ d, df = some d → d ≠ []) :
    make_ok caps st eof a l w fl = encOk (Mimic.Py.hasBit caps 9) (Mimic.Py.hasBit caps 13) ⟨eof, a, l, st ||| fl, w⟩ ∧
    make_eof caps st w fl = encEof (Mimic.Py.hasBit caps 9) ⟨w, st ||| fl⟩ ∧
    make_error caps msg code = encErr (Mimic.Py.hasBit caps 9) ⟨code, get_sqlstate code, msg⟩ ∧
    make_column_definition_41 sc tb ot nm on cs ln ty fg dc isfl df =
      encColDef ⟨sc, tb, if ot = [] then tb else ot, nm, if on = [] then nm else on, cs, ln, ty, fg, dc, if isfl then some df else none⟩ :=
  ⟨MimicProofs.PacketsCode.make_ok_eq caps st eof a l w fl, MimicProofs.PacketsCode.make_eof_eq caps st w fl,
   MimicProofs.PacketsCode.make_error_eq caps msg code (MimicProofs.PacketsCode.sqlstate_five code),
   MimicProofs.PacketsCode.make_coldef_eq sc tb ot nm on cs ln ty fg dc isfl df hdf⟩

open Mimic.Extracted.PacketsCode Mimic.Reply in
/-- **what the code writes as an OK / ERR packet, a 4.1 client reads back** (composition of the translation
    equivalence with the round-trip theorems) -/
theorem code_ok_err_roundtrip (caps st a l w fl code : Nat) (eof : Bool) (msg : Mimic.Py.Bytes) (h41 : Mimic.Py.hasBit caps 9 = true)
    (h1 : a < 2 ^ 64) (h2 : l < 2 ^ 64) (h3 : st ||| fl < 2 ^ 16) (h4 : w < 2 ^ 16) (h5 : code < 2 ^ 16) :
    decOk (make_ok caps st eof a l w fl) = some ⟨eof, a, l, st ||| fl, w⟩ ∧
    decErr (make_error caps msg code) = some ⟨code, get_sqlstate code, msg⟩ := by
  constructor
  · rw [MimicProofs.PacketsCode.make_ok_eq, h41]
    exact ok_roundtrip _ ⟨eof, a, l, st ||| fl, w⟩ h1 h2 h3 h4
  · rw [MimicProofs.PacketsCode.make_error_eq caps msg code (MimicProofs.PacketsCode.sqlstate_five code), h41]
    exact err_roundtrip ⟨code, get_sqlstate code, msg⟩ h5 (MimicProofs.PacketsCode.sqlstate_five code)

/-! ### the handlers have the shape the scripts assume (extracted from `connection.py` on every run) -/

/-- what every command handler awaits, in execution order: stream writes with the kind of packet and whether they
    drain at once or are buffered, explicit drains, application / session calls, loops and branches.  `scriptOf` was
    written against exactly these skeletons; a handler that writes in a different order, drains differently or gains
    / loses an await no longer matches. -/
theorem handler_skeletons : Mimic.Extracted.Handlers.skeletons = [
      ("handle_ping", "W(ok,drain)"),
      ("handle_init_db", "CALL(use) W(ok,drain)"),
      ("handle_field_list", "CALL(query) LOOP(aiterate(result.rows))[W(coldef,buffered)] W(term,drain)"),
      ("handle_query", "CALL(query) IF(not result_set)[W(ok,drain) RETURN]ELSE[] LOOP(self.text_resultset(result_set))[W(packet,buffered)] D"),
      ("handle_stmt_prepare", "LOOP(self.com_stmt_prepare_response(stmt))[W(packet,buffered)] D"),
      ("handle_stmt_send_long_data", "IF(stmt is None)[RETURN]ELSE[]"),
      ("handle_stmt_execute", "CALL(query) IF(not result_set)[W(ok,drain) RETURN]ELSE[] W(colcount,drain) LOOP(result_set.columns)[W(coldef,drain)] DEF(gen_rows)[LOOP(cooperative_iterate(aiterate(result_set.rows)))[YIELD(row)]] IF(com_stmt_execute.use_cursor)[W(term,drain)]ELSE[IF(not self.deprecate_eof())[W(eof,drain)]ELSE[] LOOP(rows)[W(row,drain)] W(term,drain)]"),
      ("handle_stmt_fetch", "IF(com_stmt_fetch.num_rows > 0)[LOOP(cooperative_iterate(stmt.cursor))[W(packet,buffered)]]ELSE[] D W(term,drain)"),
      ("handle_stmt_reset", "CALL(reset) W(ok,drain)"),
      ("handle_stmt_close", ""),
      ("handle_reset_connection", "W(ok,drain)"),
      ("handle_debug", "W(ok,drain)"),
      ("handle_change_user", "TRY[CALL(_change_user)] EXCEPT(AuthenticationFailed)[RAISE()] EXCEPT(Exception)[IF(isinstance(e, MysqlError))[W(err,drain)]ELSE[W(err,drain)] RAISE(AuthenticationFailed())] CALL(reset)"),
      ("text_resultset", "YIELD(colcount) LOOP(result_set.columns)[YIELD(coldef)] IF(not self.deprecate_eof())[YIELD(eof)]ELSE[] LOOP(cooperative_iterate(aiterate(result_set.rows)))[YIELD(row)] YIELD(term)"),
      ("com_stmt_prepare_response", "YIELD(prepok) IF(statement.num_params)[LOOP(range(statement.num_params))[YIELD(coldef)] IF(not self.deprecate_eof())[YIELD(eof)]ELSE[]]ELSE[]")] := by
  rfl

/-- **command codes, capability bits, status bits and execute flags are the protocol's** for every constant the server
    acts on: the commands it dispatches, every capability flag (the handshake announces and tests them by position), the
    status bits it sets, the cursor flags it reads -/
theorem protocol_constants :
    (["COM_QUIT", "COM_INIT_DB", "COM_QUERY", "COM_FIELD_LIST", "COM_DEBUG", "COM_PING", "COM_CHANGE_USER", "COM_STMT_PREPARE",
      "COM_STMT_EXECUTE", "COM_STMT_SEND_LONG_DATA", "COM_STMT_CLOSE", "COM_STMT_RESET", "COM_STMT_FETCH", "COM_RESET_CONNECTION"].map
        (fun n => Mimic.Extracted.Protocol.commands.lookup n)) =
      [some 1, some 2, some 3, some 4, some 13, some 14, some 17, some 22, some 23, some 24, some 25, some 26, some 28, some 31] ∧
    Mimic.Extracted.Protocol.capabilities.map (·.2) = (List.range 32).map (fun k => 2 ^ k) ∧
    (Mimic.Extracted.Protocol.capabilities.map (·.1)).take 28 =
      ["CLIENT_LONG_PASSWORD", "CLIENT_FOUND_ROWS", "CLIENT_LONG_FLAG", "CLIENT_CONNECT_WITH_DB", "CLIENT_NO_SCHEMA", "CLIENT_COMPRESS",
       "CLIENT_ODBC", "CLIENT_LOCAL_FILES", "CLIENT_IGNORE_SPACE", "CLIENT_PROTOCOL_41", "CLIENT_INTERACTIVE", "CLIENT_SSL",
       "CLIENT_IGNORE_SIGPIPE", "CLIENT_TRANSACTIONS", "CLIENT_RESERVED", "CLIENT_SECURE_CONNECTION", "CLIENT_MULTI_STATEMENTS",
       "CLIENT_MULTI_RESULTS", "CLIENT_PS_MULTI_RESULTS", "CLIENT_PLUGIN_AUTH", "CLIENT_CONNECT_ATTRS",
       "CLIENT_PLUGIN_AUTH_LENENC_CLIENT_DATA", "CLIENT_CAN_HANDLE_EXPIRED_PASSWORDS", "CLIENT_SESSION_TRACK", "CLIENT_DEPRECATE_EOF",
       "CLIENT_OPTIONAL_RESULTSET_METADATA", "CLIENT_ZSTD_COMPRESSION_ALGORITHM", "CLIENT_QUERY_ATTRIBUTES"] ∧
    (["SERVER_STATUS_IN_TRANS", "SERVER_STATUS_AUTOCOMMIT", "SERVER_MORE_RESULTS_EXISTS", "SERVER_STATUS_CURSOR_EXISTS",
      "SERVER_STATUS_LAST_ROW_SENT"].map (fun n => Mimic.Extracted.Protocol.serverStatus.lookup n)) = [some 1, some 2, some 8, some 64, some 128] ∧
    (["CURSOR_TYPE_READ_ONLY", "PARAMETER_COUNT_AVAILABLE"].map (fun n => Mimic.Extracted.Protocol.executeFlags.lookup n))
      = [some 1, some 8] := by
  decide +kernel

/-! ### the handler scripts are the code's write / drain skeleton (`Mimic.Extracted.HandlersCode`, `harness/pytrans3.py`)

The scripts of `Mimic.Script` — what the response theorems above quantify over — are hand-written.  For the handlers that
are translated statement by statement from `connection.py` on every run, the script's *wire skeleton* (which operations
put a packet into the write buffer, where the flush points are: `opShape`) is **derived** from the translated code
(`evShape` of the effects it performs), for every number of columns, parameters and rows and both EOF conventions.
`parse` / `app` / `coldef` are arbitrary (the parser, the application, the column encoder). -/
section code
open Mimic.Extracted.HandlersCode MimicProofs.HandlersCode
variable {S : Type} [DecidableEq S]

theorem query_script_is_code (E : Mimic.Py.Env S) (coldef : Nat → Nat → Mimic.Py.Bytes) (app : S → Option (ResultSet S)) (c : Connection S)
    (data : Mimic.Py.Bytes) (q : Mimic.Extracted.ParsersCode.ComQuery S) (rs : ResultSet S)
    (hp : Mimic.Extracted.ParsersCode.parse_com_query E c.capabilities c.client_charset data = some q) (ha : app q.sql = some rs)
    (hb : rs.rows.boom = false) :
    ∃ c' tail, handle_query E coldef app c data = .ok c' ∧ c'.out = c.out ++ tail ∧
      evShape tail = opShape (Mimic.Script.scriptOf (deprecate_eof c)
        (.query { ncols := rs.columns.length, rows := plainRows rs.rows.rows.length })) :=
  MimicProofs.HandlersCode.query_script_is_code E coldef app c data q rs hp ha hb

theorem execute_script_is_code (coldef : Nat → Nat → Mimic.Py.Bytes) (parse : Connection S → Mimic.Py.Bytes → Option (ComStmtExecute S))
    (app : S → Option (ResultSet S)) (c : Connection S) (data : Mimic.Py.Bytes) (x : ComStmtExecute S) (rs : ResultSet S)
    (hp : parse c data = some x) (ha : app x.sql = some rs) (hb : rs.rows.boom = false) :
    ∃ c' tail, handle_stmt_execute coldef parse app c data = .ok c' ∧ c'.out = c.out ++ tail ∧
      evShape tail = opShape (Mimic.Script.scriptOf (deprecate_eof c)
        (.execute true x.use_cursor { ncols := rs.columns.length, rows := plainRows rs.rows.rows.length })) :=
  MimicProofs.HandlersCode.execute_script_is_code coldef parse app c data x rs hp ha hb

theorem prepare_script_is_code (E : Mimic.Py.Env S) (cp : S → Nat) (pc : Nat → Mimic.Py.Bytes) (c : Connection S) (data : Mimic.Py.Bytes) (sql : S)
    (hd : E.decode c.client_charset data = some sql) :
    ∃ c' tail, handle_stmt_prepare E cp pc c data = .ok c' ∧ c'.out = c.out ++ tail ∧
      evShape tail = opShape (Mimic.Script.scriptOf (deprecate_eof c) (.prepare (cp sql))) :=
  MimicProofs.HandlersCode.prepare_script_is_code E cp pc c data sql hd

theorem initdb_script_is_code (E : Mimic.Py.Env S) (ur : S → Bool) (c : Connection S) (data : Mimic.Py.Bytes) (db : S) (dep : Bool)
    (hp : Mimic.Extracted.ParsersCode.parse_com_init_db E c.client_charset data = some db) (hu : ur db = false) :
    ∃ c' tail, handle_init_db E ur c data = .ok c' ∧ c'.out = c.out ++ tail ∧
      evShape tail = opShape (Mimic.Script.scriptOf dep (.initDb false)) :=
  MimicProofs.HandlersCode.initdb_script_is_code E ur c data db dep hp hu

theorem fieldlist_script_is_code (E : Mimic.Py.Env S) (app : S → Option (ResultSet S)) (fls : Mimic.Extracted.ParsersCode.ComFieldList S → S)
    (fcd : Nat → S → Mimic.Py.Bytes → Mimic.Py.Bytes) (c : Connection S) (data : Mimic.Py.Bytes)
    (f : Mimic.Extracted.ParsersCode.ComFieldList S) (rs : ResultSet S) (dep : Bool)
    (hp : Mimic.Extracted.ParsersCode.parse_com_field_list E c.client_charset data = some f) (ha : app (fls f) = some rs)
    (hb : rs.rows.boom = false) :
    ∃ c' tail, handle_field_list E app fls fcd c data = .ok c' ∧ c'.out = c.out ++ tail ∧
      evShape tail = opShape (Mimic.Script.scriptOf dep (.fieldList { rows := plainRows rs.rows.rows.length })) :=
  MimicProofs.HandlersCode.fieldlist_script_is_code E app fls fcd c data f rs dep hp ha hb

theorem ping_script_is_code (c : Connection S) (data : Mimic.Py.Bytes) (dep : Bool) :
    ∃ c' tail, handle_ping c data = .ok c' ∧ c'.out = c.out ++ tail ∧ evShape tail = opShape (Mimic.Script.scriptOf dep .ping) :=
  MimicProofs.HandlersCode.ping_script_is_code c data dep

/-- **COM_QUERY, on the translated code**: nothing is written for a malformed packet or a raising application; one OK
    without result set; otherwise count, definitions, metadata EOF unless deprecated, the rows, one terminator, one drain;
    a row source raising in the middle leaves exactly the rows before it (the one ERR is the command loop's) -/
theorem query_response_is_code (E : Mimic.Py.Env S) (coldef : Nat → Nat → Mimic.Py.Bytes) (app : S → Option (ResultSet S)) (c : Connection S)
    (data : Mimic.Py.Bytes) :
    match Mimic.Extracted.ParsersCode.parse_com_query E c.capabilities c.client_charset data with
    | none => handle_query E coldef app c data = .error c
    | some q =>
      match app q.sql with
      | none => handle_query E coldef app c data = .error c
      | some rs =>
        if rs.columns.isEmpty then
          ∃ (e : Bool) (a l w f : Nat), handle_query E coldef app c data = .ok { c with out := c.out ++ [Ev.write (ok c e a l w f) true] }
        else
          ∃ (w f l w2 fl : Nat),
            let pre := if deprecate_eof c then [] else [Ev.write (eof c w f) false]
            let sent := c.out ++ queryMeta coldef c rs ++ pre ++ rs.rows.rows.map (fun p => Ev.write p false)
            handle_query E coldef app c data
              = if rs.rows.boom then .error { c with out := sent }
                else .ok { c with out := sent ++ [Ev.write (ok_or_eof c rs.rows.rows.length l w2 fl) false, Ev.drain] } :=
  handle_query_spec E coldef app c data

/-! #### one iteration of the command loop (`command_phase`, translated; kills are the machine's subject) -/

/-- **Every command gets the handler's packets and — iff the handler raised — exactly one ERR, then the sequence reset;
    nothing else is written.**  For every packet (empty ones, unsupported command bytes, malformed payloads included), every
    connection state, every parser / application / untranslated-handler behaviour (`parse`, `app`, `other`): what
    `command_step` appends to the wire is what the dispatched handler wrote, followed by one drained ERR packet exactly in
    the failure case, followed by `reset_seq`; the executing flag is cleared in every case. -/
theorem command_step_is_code (E : Mimic.Py.Env S) (cp : S → Nat) (pc : Nat → Mimic.Py.Bytes) (coldef : Nat → Nat → Mimic.Py.Bytes)
    (parse : Connection S → Mimic.Py.Bytes → Option (ComStmtExecute S)) (app : S → Option (ResultSet S))
    (ur : S → Bool) (fls : Mimic.Extracted.ParsersCode.ComFieldList S → S) (fcd : Nat → S → Mimic.Py.Bytes → Mimic.Py.Bytes)
    (other : Nat → Connection S → Mimic.Py.Bytes → Except (Connection S) (Connection S)) (err : Connection S → Mimic.Py.Bytes) (af : Nat → Connection S → Mimic.Py.Bytes → Option (Connection S))
    (c : Connection S) (data : Mimic.Py.Bytes) :
    let c1 : Connection S := { c with _executing := true }
    match authEnded af c data with
    | some s => command_step E cp pc coldef parse app ur fls fcd other err af c data = ({ s with _executing := false, out := s.out ++ [Ev.reset_seq] }, false)
    | none =>
    match data with
    | [] =>
      command_step E cp pc coldef parse app ur fls fcd other err af c data
        = ({ c with _executing := false, out := c.out ++ [Ev.write (err { c with _executing := false }) true, Ev.reset_seq] }, true)
    | command :: rest =>
      match dispatch E cp pc coldef parse app ur fls fcd other c1 command.toNat rest with
      | .ok (some s) =>
        command_step E cp pc coldef parse app ur fls fcd other err af c data = ({ s with _executing := false, out := s.out ++ [Ev.reset_seq] }, true)
      | .ok none =>
        command_step E cp pc coldef parse app ur fls fcd other err af c data = ({ c with _executing := false, out := c.out ++ [Ev.reset_seq] }, false)
      | .error s =>
        command_step E cp pc coldef parse app ur fls fcd other err af c data
          = ({ s with _executing := false, out := s.out ++ [Ev.write (err { s with _executing := false }) true, Ev.reset_seq] }, true) :=
  command_step_spec E cp pc coldef parse app ur fls fcd other err af c data

/-- the command loop ends only on COM_QUIT; an unsupported command byte raises (one ERR, the connection goes on) -/
theorem dispatch_quit_and_unsupported (E : Mimic.Py.Env S) (cp : S → Nat) (pc : Nat → Mimic.Py.Bytes) (coldef : Nat → Nat → Mimic.Py.Bytes)
    (parse : Connection S → Mimic.Py.Bytes → Option (ComStmtExecute S)) (app : S → Option (ResultSet S))
    (ur : S → Bool) (fls : Mimic.Extracted.ParsersCode.ComFieldList S → S) (fcd : Nat → S → Mimic.Py.Bytes → Mimic.Py.Bytes)
    (other : Nat → Connection S → Mimic.Py.Bytes → Except (Connection S) (Connection S)) (c : Connection S) (command : Nat) (rest : Mimic.Py.Bytes) :
    (dispatch E cp pc coldef parse app ur fls fcd other c command rest = .ok none ↔ command = 1) ∧
    (command ∉ dispatched → dispatch E cp pc coldef parse app ur fls fcd other c command rest = .error c) :=
  ⟨dispatch_quit_iff E cp pc coldef parse app ur fls fcd other c command rest, dispatch_unsupported E cp pc coldef parse app ur fls fcd other c command rest⟩

/-- **A whole COM_QUERY exchange, on the translated code**: the packet `0x03 · payload` goes in; for a result set whose row
    source yields `rows` (and then raises iff `boom`) the wire gets the metadata block, the optional metadata EOF, every row in
    order, and then **either** the terminator (affected rows = number of rows) and a drain **or** — iff the source raised —
    exactly one ERR; the sequence reset comes last and the loop goes on. -/
theorem code_query_exchange (E : Mimic.Py.Env S) (cp : S → Nat) (pc : Nat → Mimic.Py.Bytes) (coldef : Nat → Nat → Mimic.Py.Bytes)
    (parse : Connection S → Mimic.Py.Bytes → Option (ComStmtExecute S)) (app : S → Option (ResultSet S))
    (ur : S → Bool) (fls : Mimic.Extracted.ParsersCode.ComFieldList S → S) (fcd : Nat → S → Mimic.Py.Bytes → Mimic.Py.Bytes)
    (other : Nat → Connection S → Mimic.Py.Bytes → Except (Connection S) (Connection S)) (err : Connection S → Mimic.Py.Bytes) (af : Nat → Connection S → Mimic.Py.Bytes → Option (Connection S))
    (c : Connection S) (payload : Mimic.Py.Bytes) (q : Mimic.Extracted.ParsersCode.ComQuery S) (rs : ResultSet S)
    (hp : Mimic.Extracted.ParsersCode.parse_com_query E c.capabilities c.client_charset payload = some q) (ha : app q.sql = some rs)
    (hne : rs.columns.isEmpty = false) :
    ∃ (w f l w2 fl : Nat),
      let pre := if deprecate_eof c then [] else [Ev.write (eof c w f) false]
      let sent := c.out ++ queryMeta coldef c rs ++ pre ++ rs.rows.rows.map (fun p => Ev.write p false)
      (command_step E cp pc coldef parse app ur fls fcd other err af c (3 :: payload)).2 = true ∧
      ∃ e : Mimic.Py.Bytes, (command_step E cp pc coldef parse app ur fls fcd other err af c (3 :: payload)).1.out
        = if rs.rows.boom then sent ++ [Ev.write e true, Ev.reset_seq]
          else sent ++ [Ev.write (ok_or_eof c rs.rows.rows.length l w2 fl) false, Ev.drain, Ev.reset_seq] :=
  query_command_response E cp pc coldef parse app ur fls fcd other err af c payload q rs hp ha hne

/-! ### the command loop itself (`command_loop`: the `while True` of `command_phase`, generated), for every conversation -/

open MimicProofs.CommandLoop in
/-- **The command phase is ended only by a COM_QUIT — always — or by a COM_CHANGE_USER whose authentication fails.**  For every
    list of packets (of any length; malformed, empty and unsupported ones included) and every behaviour of parsers, application
    and the untranslated handler: if the loop returned because of a packet, some packet starts with byte 1 or 17; a packet
    starting with byte 1 always ends it; and when no COM_CHANGE_USER fails (`af 17` never says so — in particular when none is
    sent) the loop ends iff a COM_QUIT was sent.  No failure, no ERR and no other command ends it ("and then waits for the next
    command"). -/
theorem code_loop_ends_only_by_quit (E : Mimic.Py.Env S) (cp : S → Nat) (pc : Nat → Mimic.Py.Bytes) (coldef : Nat → Nat → Mimic.Py.Bytes)
    (parse : Connection S → Mimic.Py.Bytes → Option (ComStmtExecute S)) (app : S → Option (ResultSet S))
    (ur : S → Bool) (fls : Mimic.Extracted.ParsersCode.ComFieldList S → S) (fcd : Nat → S → Mimic.Py.Bytes → Mimic.Py.Bytes)
    (other : Nat → Connection S → Mimic.Py.Bytes → Except (Connection S) (Connection S)) (err : Connection S → Mimic.Py.Bytes) (af : Nat → Connection S → Mimic.Py.Bytes → Option (Connection S))
    (c : Connection S) (ps : List Mimic.Py.Bytes) :
    ((command_loop E cp pc coldef parse app ur fls fcd other err af c ps).2 = true → ∃ p ∈ ps, isQuit p = true ∨ isChangeUser p = true) ∧
    ((∃ p ∈ ps, isQuit p = true) → (command_loop E cp pc coldef parse app ur fls fcd other err af c ps).2 = true) ∧
    ((∀ c d, af 17 c d = none) → ((command_loop E cp pc coldef parse app ur fls fcd other err af c ps).2 = true ↔ ∃ p ∈ ps, isQuit p = true)) :=
  ⟨loop_ends_only E cp pc coldef parse app ur fls fcd other err af c ps, loop_quit_ends E cp pc coldef parse app ur fls fcd other err af c ps, fun hno => loop_quit_iff E cp pc coldef parse app ur fls fcd other err af hno c ps⟩

open MimicProofs.CommandLoop in
/-- **whole exchanges of the two simplest kinds, on the code**: a command byte the server does not support is answered by exactly
    one ERR and a COM_PING by exactly one OK — each drained, followed by the sequence reset, with nothing else written or changed,
    and the loop goes on; whatever bytes follow the command byte -/
theorem code_unsupported_and_ping_exchanges (E : Mimic.Py.Env S) (cp : S → Nat) (pc : Nat → Mimic.Py.Bytes) (coldef : Nat → Nat → Mimic.Py.Bytes)
    (parse : Connection S → Mimic.Py.Bytes → Option (ComStmtExecute S)) (app : S → Option (ResultSet S))
    (ur : S → Bool) (fls : Mimic.Extracted.ParsersCode.ComFieldList S → S) (fcd : Nat → S → Mimic.Py.Bytes → Mimic.Py.Bytes)
    (other : Nat → Connection S → Mimic.Py.Bytes → Except (Connection S) (Connection S)) (err : Connection S → Mimic.Py.Bytes) (af : Nat → Connection S → Mimic.Py.Bytes → Option (Connection S))
    (c : Connection S) (rest : Mimic.Py.Bytes) :
    (∀ command : UInt8, command.toNat ∉ dispatched →
      command_step E cp pc coldef parse app ur fls fcd other err af c (command :: rest)
        = ({ c with _executing := false, out := c.out ++ [Ev.write (err { c with _executing := false }) true, Ev.reset_seq] }, true)) ∧
    (∃ (e : Bool) (a l w f : Nat), command_step E cp pc coldef parse app ur fls fcd other err af c (14 :: rest)
      = ({ c with _executing := false,
                  out := c.out ++ [Ev.write (ok ({ c with _executing := true } : Connection S) e a l w f) true, Ev.reset_seq] }, true)) :=
  ⟨fun command h => unsupported_exchange E cp pc coldef parse app ur fls fcd other err af c command rest h, ping_exchange E cp pc coldef parse app ur fls fcd other err af c rest⟩

open MimicProofs.CommandLoop in
/-- **COM_QUIT is one of the no-reply commands**: its iteration writes nothing ("or nothing for the no-reply commands"), changes
    nothing but the sequence reset and the executing flag, and ends the loop — whatever bytes follow the command byte -/
theorem code_quit_is_not_answered (E : Mimic.Py.Env S) (cp : S → Nat) (pc : Nat → Mimic.Py.Bytes) (coldef : Nat → Nat → Mimic.Py.Bytes)
    (parse : Connection S → Mimic.Py.Bytes → Option (ComStmtExecute S)) (app : S → Option (ResultSet S))
    (ur : S → Bool) (fls : Mimic.Extracted.ParsersCode.ComFieldList S → S) (fcd : Nat → S → Mimic.Py.Bytes → Mimic.Py.Bytes)
    (other : Nat → Connection S → Mimic.Py.Bytes → Except (Connection S) (Connection S)) (err : Connection S → Mimic.Py.Bytes) (af : Nat → Connection S → Mimic.Py.Bytes → Option (Connection S))
    (c : Connection S) (rest : Mimic.Py.Bytes) :
    command_step E cp pc coldef parse app ur fls fcd other err af c (1 :: rest) = ({ c with _executing := false, out := c.out ++ [Ev.reset_seq] }, false) :=
  quit_exchange E cp pc coldef parse app ur fls fcd other err af c rest

open MimicProofs.CommandLoop in
/-- **nothing behind a COM_QUIT is looked at**: packets pipelined after it change neither the state nor the wire -/
theorem code_loop_ignores_after_quit (E : Mimic.Py.Env S) (cp : S → Nat) (pc : Nat → Mimic.Py.Bytes) (coldef : Nat → Nat → Mimic.Py.Bytes)
    (parse : Connection S → Mimic.Py.Bytes → Option (ComStmtExecute S)) (app : S → Option (ResultSet S))
    (ur : S → Bool) (fls : Mimic.Extracted.ParsersCode.ComFieldList S → S) (fcd : Nat → S → Mimic.Py.Bytes → Mimic.Py.Bytes)
    (other : Nat → Connection S → Mimic.Py.Bytes → Except (Connection S) (Connection S)) (err : Connection S → Mimic.Py.Bytes) (af : Nat → Connection S → Mimic.Py.Bytes → Option (Connection S))
    (c : Connection S) (pre post : List Mimic.Py.Bytes) (q : Mimic.Py.Bytes) (hq : isQuit q = true) :
    command_loop E cp pc coldef parse app ur fls fcd other err af c (pre ++ q :: post) = command_loop E cp pc coldef parse app ur fls fcd other err af c (pre ++ [q]) :=
  loop_ignores_after_quit E cp pc coldef parse app ur fls fcd other err af c pre post q hq

open MimicProofs.CommandLoop in
/-- **after every command the sequence is reset and the executing flag cleared** — after one iteration on any packet, and
    after any non-empty conversation: the last effect is `reset_seq`, so the next command's response counts up from the
    command's own number whatever became of this one -/
theorem code_every_command_resets_sequence (E : Mimic.Py.Env S) (cp : S → Nat) (pc : Nat → Mimic.Py.Bytes) (coldef : Nat → Nat → Mimic.Py.Bytes)
    (parse : Connection S → Mimic.Py.Bytes → Option (ComStmtExecute S)) (app : S → Option (ResultSet S))
    (ur : S → Bool) (fls : Mimic.Extracted.ParsersCode.ComFieldList S → S) (fcd : Nat → S → Mimic.Py.Bytes → Mimic.Py.Bytes)
    (other : Nat → Connection S → Mimic.Py.Bytes → Except (Connection S) (Connection S)) (err : Connection S → Mimic.Py.Bytes) (af : Nat → Connection S → Mimic.Py.Bytes → Option (Connection S))
    (c : Connection S) :
    (∀ data : Mimic.Py.Bytes, (command_step E cp pc coldef parse app ur fls fcd other err af c data).1._executing = false ∧
        ∃ pre, (command_step E cp pc coldef parse app ur fls fcd other err af c data).1.out = pre ++ [Ev.reset_seq]) ∧
    (∀ ps : List Mimic.Py.Bytes, ps ≠ [] → (command_loop E cp pc coldef parse app ur fls fcd other err af c ps).1._executing = false ∧
        ∃ pre, (command_loop E cp pc coldef parse app ur fls fcd other err af c ps).1.out = pre ++ [Ev.reset_seq]) :=
  ⟨fun data => step_clears_and_resets E cp pc coldef parse app ur fls fcd other err af c data, fun ps h => loop_clears_and_resets E cp pc coldef parse app ur fls fcd other err af c ps h⟩

open MimicProofs.CommandLoop in
/-- **conversations compose**: serving `ps ++ qs` is serving `ps` and then — unless `ps` contained a COM_QUIT — serving `qs`
    from the state `ps` left; what a command gets depends on the commands before it only through that state -/
theorem code_loop_composes (E : Mimic.Py.Env S) (cp : S → Nat) (pc : Nat → Mimic.Py.Bytes) (coldef : Nat → Nat → Mimic.Py.Bytes)
    (parse : Connection S → Mimic.Py.Bytes → Option (ComStmtExecute S)) (app : S → Option (ResultSet S))
    (ur : S → Bool) (fls : Mimic.Extracted.ParsersCode.ComFieldList S → S) (fcd : Nat → S → Mimic.Py.Bytes → Mimic.Py.Bytes)
    (other : Nat → Connection S → Mimic.Py.Bytes → Except (Connection S) (Connection S)) (err : Connection S → Mimic.Py.Bytes) (af : Nat → Connection S → Mimic.Py.Bytes → Option (Connection S))
    (c : Connection S) (ps qs : List Mimic.Py.Bytes) :
    command_loop E cp pc coldef parse app ur fls fcd other err af c (ps ++ qs)
      = if (command_loop E cp pc coldef parse app ur fls fcd other err af c ps).2 then command_loop E cp pc coldef parse app ur fls fcd other err af c ps
        else command_loop E cp pc coldef parse app ur fls fcd other err af (command_loop E cp pc coldef parse app ur fls fcd other err af c ps).1 qs :=
  loop_append E cp pc coldef parse app ur fls fcd other err af c ps qs

open MimicProofs.Monotone in
/-- **Nothing once written is ever retracted or reordered by a later command.**  For every conversation `ps ++ qs`: what has been
    put on the wire (and every drain, reset and `use` call) after serving `ps` is a prefix of what is there after serving
    `ps ++ qs`; and one iteration on any packet only extends what was there.  Holds for every behaviour of parsers, application
    and row sources, whether handlers return or raise; the one untranslated handler (`handle_change_user`, the parameter
    `other`) is assumed to extend the effects too, whether it returns, raises or raises `AuthenticationFailed` (`hother`, `haf`) — the thirteen translated ones are proved to. -/
theorem code_nothing_written_is_retracted (E : Mimic.Py.Env S) (cp : S → Nat) (pc : Nat → Mimic.Py.Bytes) (coldef : Nat → Nat → Mimic.Py.Bytes)
    (parse : Connection S → Mimic.Py.Bytes → Option (ComStmtExecute S)) (app : S → Option (ResultSet S))
    (ur : S → Bool) (fls : Mimic.Extracted.ParsersCode.ComFieldList S → S) (fcd : Nat → S → Mimic.Py.Bytes → Mimic.Py.Bytes)
    (other : Nat → Connection S → Mimic.Py.Bytes → Except (Connection S) (Connection S)) (err : Connection S → Mimic.Py.Bytes) (af : Nat → Connection S → Mimic.Py.Bytes → Option (Connection S))
    (hother : ∀ k c d, Ext c (other k c d)) (haf : ∀ k c d s, af k c d = some s → c.out <+: s.out) (c : Connection S) (ps qs : List Mimic.Py.Bytes) :
    (command_loop E cp pc coldef parse app ur fls fcd other err af c ps).1.out <+: (command_loop E cp pc coldef parse app ur fls fcd other err af c (ps ++ qs)).1.out ∧
    ∀ data : Mimic.Py.Bytes, c.out <+: (command_step E cp pc coldef parse app ur fls fcd other err af c data).1.out :=
  ⟨loop_prefix E cp pc coldef parse app ur fls fcd other err af hother haf c ps qs, fun data => step_ext E cp pc coldef parse app ur fls fcd other err af hother haf c data⟩

/-- non-vacuity of `hother`: a handler that writes one packet and returns, and one that raises at once -/
example (c : Connection S) (p : Mimic.Py.Bytes) :
    MimicProofs.Monotone.Ext c (.ok { c with out := c.out ++ [Ev.write p true] }) ∧ MimicProofs.Monotone.Ext c (.error c) :=
  ⟨List.prefix_append _ _, List.prefix_refl _⟩

open MimicProofs.Frame in
/-- **A whole conversation is answered under the capabilities negotiated in the handshake.**  No command of any conversation
    changes the connection's `capabilities` or `status_flags` — the two values every response shape depends on — so in particular
    the terminator convention (EOF packets or OK-as-EOF) is the same for the first and the last response.  The thirteen translated
    handlers are proved to keep them; the untranslated `handle_change_user` is assumed to (`hother`, `haf`). -/
theorem code_capabilities_constant (E : Mimic.Py.Env S) (cp : S → Nat) (pc : Nat → Mimic.Py.Bytes) (coldef : Nat → Nat → Mimic.Py.Bytes)
    (parse : Connection S → Mimic.Py.Bytes → Option (ComStmtExecute S)) (app : S → Option (ResultSet S))
    (ur : S → Bool) (fls : Mimic.Extracted.ParsersCode.ComFieldList S → S) (fcd : Nat → S → Mimic.Py.Bytes → Mimic.Py.Bytes)
    (other : Nat → Connection S → Mimic.Py.Bytes → Except (Connection S) (Connection S)) (err : Connection S → Mimic.Py.Bytes) (af : Nat → Connection S → Mimic.Py.Bytes → Option (Connection S))
    (hother : ∀ k c d, Keeps c (other k c d)) (haf : ∀ k c d s, af k c d = some s → Same c s) (c : Connection S) (ps : List Mimic.Py.Bytes) :
    (command_loop E cp pc coldef parse app ur fls fcd other err af c ps).1.capabilities = c.capabilities ∧
    (command_loop E cp pc coldef parse app ur fls fcd other err af c ps).1.status_flags = c.status_flags ∧
    deprecate_eof (command_loop E cp pc coldef parse app ur fls fcd other err af c ps).1 = deprecate_eof c :=
  ⟨(loop_keeps E cp pc coldef parse app ur fls fcd other err af hother haf c ps).1, (loop_keeps E cp pc coldef parse app ur fls fcd other err af hother haf c ps).2, loop_deprecate_eof E cp pc coldef parse app ur fls fcd other err af hother haf c ps⟩

open MimicProofs.ChangeUser MimicProofs.Monotone MimicProofs.Frame in
/-- **The conversation theorems with `handle_change_user` (generated) in the loop**: what is assumed is now about `_change_user`
    alone — that however it ends it has only extended the effects and kept capabilities and status flags.  Then for every
    conversation, COM_CHANGE_USER packets included, nothing written is retracted and the capabilities are those of the handshake. -/
theorem code_conversations_with_change_user (E : Mimic.Py.Env S) (cp : S → Nat) (pc : Nat → Mimic.Py.Bytes) (coldef : Nat → Nat → Mimic.Py.Bytes)
    (parse : Connection S → Mimic.Py.Bytes → Option (ComStmtExecute S)) (app : S → Option (ResultSet S))
    (ur : S → Bool) (fls : Mimic.Extracted.ParsersCode.ComFieldList S → S) (fcd : Nat → S → Mimic.Py.Bytes → Mimic.Py.Bytes)
    (err : Connection S → Mimic.Py.Bytes) (cu : Connection S → Mimic.Py.Bytes → CUOut S) (cerr : Connection S → Mimic.Py.Bytes)
    (hext : ∀ c d, c.out <+: (cu c d).state.out) (hsame : ∀ c d, Same c (cu c d).state)
    (c : Connection S) (ps qs : List Mimic.Py.Bytes) :
    (loopCU E cp pc coldef parse app ur fls fcd err cu cerr c ps).1.out <+: (loopCU E cp pc coldef parse app ur fls fcd err cu cerr c (ps ++ qs)).1.out ∧
    (loopCU E cp pc coldef parse app ur fls fcd err cu cerr c ps).1.capabilities = c.capabilities ∧
    (loopCU E cp pc coldef parse app ur fls fcd err cu cerr c ps).1.status_flags = c.status_flags :=
  ⟨loop_prefix E cp pc coldef parse app ur fls fcd (change_user_other cu cerr) err (change_user_auth_failed cu cerr)
      (other_ext cu cerr hext) (auth_failed_ext cu cerr hext) c ps qs,
   (loop_keeps E cp pc coldef parse app ur fls fcd (change_user_other cu cerr) err (change_user_auth_failed cu cerr)
      (other_keeps cu cerr hsame) (auth_failed_keeps cu cerr hsame) c ps).1,
   (loop_keeps E cp pc coldef parse app ur fls fcd (change_user_other cu cerr) err (change_user_auth_failed cu cerr)
      (other_keeps cu cerr hsame) (auth_failed_keeps cu cerr hsame) c ps).2⟩

/-- non-vacuity: a conversation of an empty packet, an unsupported byte and a COM_QUIT followed by a pipelined ping -/
example : MimicProofs.CommandLoop.served [[], [0x63], [1], [14]] = [[], [0x63], [1]] := by decide


/-- the command bytes the code dispatches are the ones the machine's command set names (extracted order of the if / elif chain) -/
theorem dispatched_codes : dispatched = [3, 22, 24, 23, 28, 26, 25, 14, 17, 31, 13, 1, 2, 4] := by decide

end code

end MimicProps.C03
