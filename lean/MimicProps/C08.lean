import Mimic.Server
import Mimic.Drv
import Mimic.Extracted.Shared
/-!
# C08 — Connections do not interfere: each behaves as if it were alone

* `projection_eq_solo`: for **every** per-connection step function, every family of initial states and every
  interleaving of the connections' events, the transcript and final state of connection *i* in the interleaved run
  are those of running *i*'s own events alone.  The theorem is structural: its content is the hypothesis that the
  server is *of this shape* — that a step on connection i reads and writes nothing but i's state;
* `driver_connections_independent`: the instance for the whole per-connection model of this development (framing,
  sequence ids, variables, database, prepared statements, long data, cursors, character sets — the state of
  `Mimic.Drv.St`, the object every correspondence check drives);
* `shared_state_audit`: that hypothesis, tied to the source: the module-level and class-level mutable objects of the
  package, the stores into them, and the attribute stores of the objects shared between connections (plugins,
  identity providers, server, registry), extracted on every run, are exactly the reviewed ones — constant lookup
  tables that no function body writes, one pure memo (`parse_timezone`), the context variable, and the registry.
-/
namespace MimicProps.C08
open Mimic.Server

theorem upd_same {σ : Type} (f : Nat → σ) (i : Nat) (v : σ) : upd f i v i = v := by simp [upd]
theorem upd_other {σ : Type} (f : Nat → σ) (i j : Nat) (v : σ) (h : j ≠ i) : upd f i v j = f j := by simp [upd, h]

/-- **Each connection behaves as if it were alone.** -/
theorem projection_eq_solo {σ ε ο : Type} (step : σ → ε → σ × ο) (i : Nat) :
    ∀ (evs : List (Nat × ε)) (st : Nat → σ) (tr : Nat → List ο),
      ((runInter step st tr evs).1 i, (runInter step st tr evs).2 i) = runSolo step (st i) (tr i) (project i evs) := by
  intro evs
  induction evs with
  | nil => intro st tr; rfl
  | cons p rest ih =>
    intro st tr
    obtain ⟨j, e⟩ := p
    simp only [runInter]
    rw [ih]
    by_cases h : j = i
    · subst h
      simp [project, upd_same, runSolo]
    · have h' : (j == i) = false := by simpa using h
      simp [project, h', upd_other _ _ _ _ (Ne.symm h)]

/-- other connections' events are invisible: adding, removing or reordering them changes nothing for connection i -/
theorem others_invisible {σ ε ο : Type} (step : σ → ε → σ × ο) (i : Nat) (evs evs' : List (Nat × ε)) (st : Nat → σ) (tr : Nat → List ο)
    (h : project i evs = project i evs') :
    (runInter step st tr evs).2 i = (runInter step st tr evs').2 i := by
  have a := projection_eq_solo step i evs st tr
  have b := projection_eq_solo step i evs' st tr
  rw [h] at a
  have := a.trans b.symm
  exact (Prod.mk.inj this).2

/-- every interleaving of the same per-connection programs gives connection i the same transcript -/
theorem interleaving_irrelevant {σ ε ο : Type} (step : σ → ε → σ × ο) (i : Nat) (evs evs' : List (Nat × ε)) (st : Nat → σ) (tr : Nat → List ο)
    (h : ∀ k, project k evs = project k evs') : (runInter step st tr evs).2 i = (runInter step st tr evs').2 i :=
  others_invisible step i evs evs' st tr (h i)

/-- the instance for the per-connection model of this development: the driver's `handle` is the step function, its
    state record `Mimic.Drv.St` the connection state (framing, sequence ids, variables, database, prepared statements,
    long data, cursors, character sets) -/
theorem driver_connections_independent (i : Nat) (evs : List (Nat × String)) (st : Nat → Mimic.Drv.St) :
    (runInter Mimic.Drv.handle st (fun _ => []) evs).2 i = (runSolo Mimic.Drv.handle (st i) [] (project i evs)).2 := by
  have := projection_eq_solo Mimic.Drv.handle i evs st (fun _ => [])
  exact (Prod.mk.inj this).2

/-- the multi-connection front of the model driver (`@i line`) performs exactly one step of `runInter`: connection i's
    state is replaced by `handle`'s result, every other connection's state is untouched, the output is `handle`'s -/
theorem driver_step_is_interleaved_step (m : Mimic.Drv.Multi) (i : Nat) (line : String) :
    (Mimic.Drv.stepAt m i line).2 = (Mimic.Drv.handle (m.get i) line).2 ∧
    (Mimic.Drv.stepAt m i line).1.get i = (Mimic.Drv.handle (m.get i) line).1 ∧
    ∀ j, j ≠ i → (Mimic.Drv.stepAt m i line).1.get j = m.get j := by
  refine ⟨rfl, ?_, ?_⟩
  · simp [Mimic.Drv.stepAt, Mimic.Drv.Multi.set, Mimic.Drv.Multi.get, List.lookup]
  · intro j hj
    simp only [Mimic.Drv.stepAt, Mimic.Drv.Multi.set, Mimic.Drv.Multi.get, List.lookup]
    have hb : (j == i) = false := by simpa using hj
    simp only [hb]
    congr 1
    induction m.conns with
    | nil => rfl
    | cons p rest ih =>
      by_cases hp : p.1 = i
      · have : (p.1 != i) = false := by simp [hp]
        simp only [List.filter, this, List.lookup]
        have hjp : (j == p.1) = false := by rw [hp]; exact hb
        simp [hjp, ih]
      · have : (p.1 != i) = true := by simpa using hp
        simp only [List.filter, this, List.lookup]
        split <;> simp_all

/-- **The code has no other state that two connections can reach** (extracted on every run):
    module-level objects are the reviewed constant tables, one pure memo and the context variable; no class-level
    mutable attribute exists; no function body stores into a module-level object; the objects shared between
    connections are written only by the registry operations and by server start-up. -/
theorem shared_state_audit :
    Mimic.Extracted.Shared.moduleLevel =
      [("charset", "DEFAULT_CHARACTER_SETS", "Dict"), ("charset", "DEFAULT_COLLATIONS", "Dict"), ("charset", "_PYTHON_CODECS", "Dict"),
       ("constants", "INFO_SCHEMA", "Dict"), ("context", "connection_id", "instance:ContextVar"), ("errors", "SQLSTATES", "Dict"),
       ("intercept", "TRANSACTION_CHARACTERISTICS", "Dict"), ("results", "_BINARY_ENCODERS", "Dict"), ("results", "_PY_TO_MYSQL_TYPE", "Dict"),
       ("results", "_TEXT_ENCODERS", "Dict"), ("variables", "DEFAULT", "instance:Default"), ("variables", "SYSTEM_VARIABLES", "Dict"),
       ("variables", "parse_timezone", "decorator:lru_cache(maxsize=48)")] ∧
    Mimic.Extracted.Shared.classLevel = [] ∧
    Mimic.Extracted.Shared.moduleStores = [] ∧
    Mimic.Extracted.Shared.sharedObjectStores =
      [("control", "LocalControl.add", "self._connections[connection_id]"), ("control", "LocalControl.remove", "self._connections.pop"),
       ("server", "MysqlServer._client_connected_cb", "self.control.add"), ("server", "MysqlServer._client_connected_cb", "self.control.remove"),
       ("server", "MysqlServer.start_server", "self._server"), ("server", "MysqlServer.start_unix_server", "self._server")] := by
  decide

/-! ### non-vacuity: two connections of the driver model, interleaved -/

example : (runInter (fun (s : Nat) (e : Nat) => (s + e, s)) (fun _ => 0) (fun _ => []) [(0, 1), (1, 10), (0, 2), (1, 20), (0, 3)]).2 0 = [0, 1, 3] := by decide

end MimicProps.C08
