import Mimic.Stream
import Mimic.Extracted.Stream
import Mimic.Results
import MimicProofs.Results
import MimicProofs.Conn
/-!
# C12 — Results stream lazily with back-pressure and without starving other clients

* `lookahead_bounded`: at every point of a response, the rows pulled from the application beyond those handed to
  the transport are at most `⌊(B-1)/5⌋` — whatever the result's size (the theorem quantifies over every finite
  prefix of a possibly unbounded source) and whatever the row widths;
* while the transport does not accept data the coroutine is parked in `drain()` and pulls nothing (the connection
  machine does nothing without an event: `blocked_pulls_nothing`);
* `yield_every_batch`: the loop yields to the event loop after every `batch` rows;
* `inference_lookahead_partial` and the witness for known finding D12: with bare column names the rows peeked
  before anything is written are bounded only by the position at which every column has shown a non-NULL value.
-/
namespace MimicProps.C12
open Mimic.Stream

/-- buffer invariant: every buffered row packet occupies at least 5 bytes and the buffer is below the threshold -/
def Inv (B : Nat) (st : St) : Prop := st.bufRows * 5 ≤ st.bufBytes ∧ st.bufBytes < B ∧ st.pulled = st.handed + st.bufRows

theorem pullRow_inv (B : Nat) (hB : 0 < B) (st : St) (size : Nat) (hs : 1 ≤ size) (h : Inv B st) : Inv B (pullRow B st size) := by
  obtain ⟨h1, h2, h3⟩ := h
  unfold pullRow
  split
  · refine ⟨by simp, by simpa using hB, ?_⟩
    show st.pulled + 1 = st.handed + st.bufRows + 1 + 0
    omega
  · rename_i hlt
    refine ⟨?_, ?_, ?_⟩
    · show (st.bufRows + 1) * 5 ≤ st.bufBytes + (4 + size); omega
    · show st.bufBytes + (4 + size) < B; omega
    · show st.pulled + 1 = st.handed + (st.bufRows + 1); omega

theorem run_inv (B : Nat) (hB : 0 < B) (sizes : List Nat) (hs : ∀ s ∈ sizes, 1 ≤ s) : ∀ st, Inv B st → Inv B (run B st sizes) := by
  induction sizes with
  | nil => intro st h; exact h
  | cons s rest ih =>
    intro st h
    exact ih (fun x hx => hs x (by simp [hx])) _ (pullRow_inv B hB st s (hs s (by simp)) h)

/-- **Look-ahead is bounded independently of the result's size**: after any number of rows of any widths,
    `pulled − handed ≤ (B − 1) / 5` (B = 32768 in the code: at most 6553 rows, reached only with 1-byte rows). -/
theorem lookahead_bounded (B metaBytes : Nat) (hm : metaBytes < B) (sizes : List Nat) (hs : ∀ s ∈ sizes, 1 ≤ s) :
    (run B (start metaBytes) sizes).pulled - (run B (start metaBytes) sizes).handed ≤ (B - 1) / 5 := by
  have h := run_inv B (by omega) sizes hs (start metaBytes) ⟨by simp [start], by simpa [start] using hm, by simp [start]⟩
  obtain ⟨h1, h2, h3⟩ := h
  rw [h3]
  have : (run B (start metaBytes) sizes).bufRows ≤ (B - 1) / 5 := by
    rw [Nat.le_div_iff_mul_le (by decide)]; omega
  omega

/-- between two consecutive flushes at most `(B-1)/5 + 1` rows are pulled -/
theorem rows_between_flushes (B : Nat) (hB : 0 < B) (st : St) (size : Nat) (hs : 1 ≤ size) (h : Inv B st) :
    (pullRow B st size).pulled - (pullRow B st size).handed ≤ (B - 1) / 5 := by
  obtain ⟨h1, h2, h3⟩ := pullRow_inv B hB st size hs h
  rw [h3]
  have : (pullRow B st size).bufRows ≤ (B - 1) / 5 := by
    rw [Nat.le_div_iff_mul_le (by decide)]; omega
  omega

/-- **While the client is not reading nothing is pulled**: a coroutine parked in a blocked drain stays exactly
    where it is (same phase, same output, same rest of the script) under every event except `unblock`, a kill's
    delivery and a transport loss. -/
theorem blocked_pulls_nothing (s : Mimic.Conn.S) (lvl : Mimic.Conn.Lvl) (rest : List Mimic.Conn.Op) (exc : Option Mimic.Conn.Exc)
    (hph : s.phase = .parked lvl .drain rest exc) :
    (Mimic.Conn.step s .resume).phase = s.phase ∧ (Mimic.Conn.step s .block).phase = s.phase ∧
    (Mimic.Conn.step s .resume).out = s.out := by
  refine ⟨?_, ?_, ?_⟩
  · simp only [Mimic.Conn.step, hph]; split <;> simp [hph]
  · simp [Mimic.Conn.step, hph]
  · simp only [Mimic.Conn.step, hph]; split <;> rfl

/-- **Fairness**: `cooperative_iterate` awaits `sleep(0)` exactly at the multiples of `batch`; hence between two
    consecutive yields exactly `batch` rows are pulled, and another connection's command waits for at most that many. -/
theorem yield_every_batch (batch n : Nat) (hb : 0 < batch) (i : Nat) :
    i ∈ yieldPoints batch n ↔ (i < n ∧ i ≠ 0 ∧ i % batch = 0) := by
  simp [yieldPoints]

theorem yields_at_most_batch_apart (batch n : Nat) (hb : 0 < batch) (i : Nat) (hi : i ∈ yieldPoints batch n)
    (hn : i + batch < n) : i + batch ∈ yieldPoints batch n := by
  rw [yield_every_batch batch n hb] at hi ⊢
  refine ⟨hn, by omega, ?_⟩
  rw [Nat.add_mod, hi.2.2]; simp

/-- **Inference look-ahead (partial).** With bare column names the rows are peeked before the first packet is
    written; the number of rows consumed is bounded by the rows up to the first row at which every column to infer
    has shown a non-NULL value.  The unconditional bound is false (next theorem), hence `_partial`. -/
theorem inference_lookahead_partial (todo : List Nat) (pre : List (List Mimic.Results.Val)) (r : List Mimic.Results.Val)
    (rest : List (List Mimic.Results.Val))
    (hr : ∀ i ∈ todo, Mimic.Results.isNull (r.getD i .null) = false) (hne : todo ≠ []) :
    (Mimic.Results.peek todo [] (r :: rest)).1 = [r] := by
  rw [Mimic.Results.peek]
  have h1 : todo.isEmpty = false := by cases todo <;> simp_all
  have h2 : (todo.filter (fun i => Mimic.Results.isNull (r.getD i .null))) = [] := by
    rw [List.filter_eq_nil_iff]; intro i hi; rw [hr i hi]; simp
  simp only [h1, Bool.false_eq_true, if_false, h2, List.isEmpty_nil, if_true, List.reverse_cons, List.reverse_nil,
    List.nil_append]

/-- **Known finding D12 (witness).** A bare column that is NULL in every row makes the peek loop consume the
    whole source before anything is written — for every length of the source. -/
theorem known_finding_all_null_column_reads_everything (n : Nat) (rows : List (List Mimic.Results.Val))
    (hrows : rows.length = n) (hnull : ∀ r ∈ rows, Mimic.Results.isNull (r.getD 0 .null) = true) :
    ∀ acc, (Mimic.Results.peek [0] acc rows).1 = acc.reverse ++ rows := by
  induction n generalizing rows with
  | zero =>
    intro acc
    have : rows = [] := List.length_eq_zero_iff.mp hrows
    subst this; simp [Mimic.Results.peek]
  | succ n ih =>
    intro acc
    match rows, hrows with
    | r :: rs, hrows =>
      have hr := hnull r (by simp)
      rw [Mimic.Results.peek]
      have hf : ([0].filter (fun i => Mimic.Results.isNull (r.getD i .null))) = [0] := by
        simp only [List.filter_cons, hr, if_true, List.filter_nil]
      simp only [List.isEmpty_cons, Bool.false_eq_true, if_false, hf]
      rw [ih rs (by simpa using hrows) (fun x hx => hnull x (by simp [hx]))]
      simp

/-- non-vacuity (small threshold): B = 64 with 11 bytes of metadata and 1-byte rows: 10 rows are pulled and none is
    handed over yet, within the bound (64 - 1) / 5 = 12; the 11th row triggers the flush -/
example : (run 64 (start 11) (List.replicate 10 1)).pulled - (run 64 (start 11) (List.replicate 10 1)).handed = 10 ∧
          (run 64 (start 11) (List.replicate 11 1)).handed = 11 := by
  decide

/-! ### fairness: another connection's command is answered within a batch of rows -/

theorem nextYield_ge (batch k : Nat) (hb : 0 < batch) : k ≤ nextYield batch k := by
  unfold nextYield
  split
  · exact Nat.le_refl _
  · have := Nat.lt_div_mul_add (a := k) (b := batch) hb
    rw [Nat.add_mul, Nat.one_mul]; omega

theorem nextYield_le (batch k : Nat) (_hb : 0 < batch) : nextYield batch k ≤ k + batch := by
  unfold nextYield
  split
  · omega
  · have := Nat.div_mul_le_self k batch
    rw [Nat.add_mul, Nat.one_mul]; omega

/-- the position computed by `nextYield` really is one of the loop's yield points whenever it lies inside the result -/
theorem nextYield_mem (batch n k : Nat) (hb : 0 < batch) (h : nextYield batch k < n) :
    nextYield batch k ∈ yieldPoints batch n := by
  unfold yieldPoints
  rw [List.mem_filter]
  refine ⟨List.mem_range.mpr h, ?_⟩
  unfold nextYield
  split
  · rename_i hc; simp [hc.1, hc.2]
  · have : (k / batch + 1) * batch ≠ 0 := Nat.mul_ne_zero (Nat.succ_ne_zero _) (Nat.pos_iff_ne_zero.mp hb)
    simp [this]

/-- **Other connections are answered after a bounded number of rows**: a command that arrives while row `k` of an
    `n`-row (arbitrarily long) result is being pulled is answered when at most `k + batch + 1` rows have been
    pulled — `batch` rows after its arrival, whatever `n`. -/
theorem served_within_batch (batch n off k : Nat) (hb : 0 < batch) : servedAt batch n off k ≤ k + batch + 1 := by
  unfold servedAt
  have h1 := nextYield_le batch k hb
  simp only
  split
  · have : min (nextYield batch k) (off + nextYield batch (k - off)) ≤ nextYield batch k := Nat.min_le_left _ _
    omega
  · rename_i hlt
    have : min (nextYield batch k) (off + nextYield batch (k - off)) ≤ nextYield batch k := Nat.min_le_left _ _
    omega

/-- and never before it arrived -/
theorem served_after_arrival (batch n off k : Nat) (hb : 0 < batch) (hk : k < n) (ho : off ≤ k) : k < servedAt batch n off k := by
  unfold servedAt
  have h1 := nextYield_ge batch k hb
  have h2 := nextYield_ge batch (k - off) hb
  simp only
  split
  · have : k ≤ min (nextYield batch k) (off + nextYield batch (k - off)) := by rw [Nat.le_min]; omega
    omega
  · exact hk

/-- **The code's loops over the application's row source are all cooperative** (extracted from the source of
    `text_resultset`, `handle_stmt_execute` and `handle_stmt_fetch` on every run). -/
theorem row_loops_cooperative :
    ∀ l ∈ ["text_resultset", "handle_stmt_execute", "handle_stmt_fetch"], Mimic.Extracted.Stream.sourceLoops.lookup l = some true := by
  decide

/-- the code's constants are usable: the batch and the buffer threshold are positive -/
theorem code_constants_positive : 0 < Mimic.Extracted.Stream.batchSize ∧ 0 < Mimic.Extracted.Stream.bufferSize := by decide

/-- the bound with the code's constants: look-ahead ≤ (bufferSize − 1) / 5 rows for every result and widths -/
theorem lookahead_bounded_code (metaBytes : Nat) (hm : metaBytes < Mimic.Extracted.Stream.bufferSize) (sizes : List Nat)
    (hs : ∀ s ∈ sizes, 1 ≤ s) :
    (run Mimic.Extracted.Stream.bufferSize (start metaBytes) sizes).pulled
      - (run Mimic.Extracted.Stream.bufferSize (start metaBytes) sizes).handed ≤ (Mimic.Extracted.Stream.bufferSize - 1) / 5 :=
  lookahead_bounded _ _ hm sizes hs

/-- with a drain after every packet (binary protocol without cursor: threshold 1) nothing is ever pulled ahead -/
theorem drain_each_row_no_lookahead (sizes : List Nat) (hs : ∀ s ∈ sizes, 1 ≤ s) :
    (run 1 (start 0) sizes).pulled = (run 1 (start 0) sizes).handed := by
  have := lookahead_bounded 1 0 (by decide) sizes hs
  have h := run_inv 1 (by decide) sizes hs (start 0) ⟨by simp [start], by simp [start], by simp [start]⟩
  obtain ⟨_, _, h3⟩ := h
  omega

example : servedAt 10000 25000 0 10001 = 20001 ∧ servedAt 10000 25000 0 10000 = 10001 ∧ servedAt 10000 25000 0 20001 = 25000 := by decide

end MimicProps.C12
