import Mimic.Cursor
import MimicProofs.HandlersCode
import MimicProofs.Frame
import MimicProofs.Indep
/-!
# C11 — Server-side cursors deliver every row exactly once, in order
-/
namespace MimicProps.C11
open Mimic.Cursor

/-- One fetch: it returns the next `min n remaining` rows in order and leaves exactly the rest; it is flagged
    last-row-sent iff it could not be filled, otherwise cursor-exists. (Source that does not raise.) -/
theorem fetch_take (rows : List Nat) (n : Nat) :
    fetchSrc { rows := rows } n =
      (.rows (rows.take n) (if rows.length < n then .lastRowSent else .cursorExists), { rows := rows.drop n }) := by
  unfold fetchSrc
  by_cases h : n ≤ rows.length
  · have : ¬ rows.length < n := by omega
    simp [h, this]
  · have h' : rows.length < n := by omega
    have ht : rows.take n = rows := List.take_of_length_le (by omega)
    have hd : rows.drop n = [] := List.drop_eq_nil_of_le (by omega)
    simp [h, h', ht, hd]

/-- as many rows as requested unless the result is exhausted -/
theorem fetch_count (rows : List Nat) (n : Nat) :
    (fetchSrc { rows := rows } n).1.rowsOf.length = min n rows.length := by
  rw [fetch_take]; simp [Out.rowsOf, List.length_take]

/-- exhaustion is never flagged while rows remain -/
theorem flagged_only_when_empty (rows : List Nat) (n : Nat) (rs : List Nat)
    (h : (fetchSrc { rows := rows } n).1 = .rows rs .lastRowSent) :
    (fetchSrc { rows := rows } n).2.rows = [] ∧ rs = rows := by
  rw [fetch_take] at h ⊢
  by_cases hl : rows.length < n
  · simp [hl] at h
    exact ⟨List.drop_eq_nil_of_le (by omega), by rw [← h, List.take_of_length_le (by omega)]⟩
  · simp [hl] at h

/-- **Every row exactly once, in order.** For every result and every sequence of fetch sizes, the rows
    delivered by the successive fetches, concatenated, are the first `sum sizes` rows of the result, and
    what remains in the cursor is the rest. -/
theorem fetches_concat (rows : List Nat) (ns : List Nat) :
    ((fetches { rows := rows } ns).1.flatMap Out.rowsOf) = rows.take ns.sum ∧
    (fetches { rows := rows } ns).2.rows = rows.drop ns.sum := by
  induction ns generalizing rows with
  | nil => simp [fetches]
  | cons n ns ih =>
    simp only [fetches, List.flatMap_cons, List.sum_cons]
    rw [fetch_take]
    have := ih (rows.drop n)
    simp only [Out.rowsOf]
    constructor
    · rw [this.1, List.take_add]
    · rw [this.2, List.drop_drop]

/-- every fetch of the sequence is filled unless the result is exhausted at that point, and is flagged
    exactly then -/
theorem fetches_flags (rows : List Nat) (ns : List Nat) (i : Nat) (hi : i < ns.length) :
    (fetches { rows := rows } ns).1[i]? =
      some (.rows ((rows.drop (ns.take i).sum).take ns[i])
        (if (rows.drop (ns.take i).sum).length < ns[i] then .lastRowSent else .cursorExists)) := by
  induction ns generalizing rows i with
  | nil => simp at hi
  | cons n ns ih =>
    simp only [fetches]
    rw [fetch_take]
    cases i with
    | zero => simp
    | succ i =>
      simp only [List.getElem?_cons_succ, List.take_succ_cons, List.sum_cons, List.getElem_cons_succ]
      have := ih (rows.drop n) i (by simpa using hi)
      rw [this, List.drop_drop]
      rfl

/-- after the result is exhausted every further fetch returns no rows and is flagged last-row-sent -/
theorem fetch_after_exhaustion (n : Nat) (hn : 0 < n) :
    fetchSrc { rows := [] } n = (.rows [] .lastRowSent, { rows := [] }) := by
  rw [fetch_take]; simp [hn]

/-- **Cursors are independent**: any command addressed to statement `a` leaves statement `b ≠ a` untouched. -/
theorem cursors_independent (r : Reg) (c : Cmd) (a b : Nat) (hab : a ≠ b)
    (hc : c = .execute a cur res ∨ c = .fetch a n ∨ c = .reset a ∨ c = .close a) :
    (step r c).1.stmts b = r.stmts b := by
  have hba : ¬ b = a := fun h => hab h.symm
  rcases hc with rfl | rfl | rfl | rfl
  · simp only [step]; split
    · rfl
    · split
      · simp [upd, hba]
      · split <;> simp [upd, hba]
  · simp only [step]; split
    · rfl
    · split
      · rfl
      · simp [upd, hba]
  · simp only [step]; split
    · rfl
    · simp [upd, hba]
  · simp [step, upd, hba]

/-- a prepare only adds the new id -/
theorem prepare_frame (r : Reg) (b : Nat) (hb : b ≠ r.next) : (step r .prepare).1.stmts b = r.stmts b := by
  simp [step, upd, hb]

/-- **Re-executing, resetting or closing a statement discards its cursor**: afterwards a fetch can only see
    the rows of the new execution (if that opened a cursor), never the old ones; fetch on a statement without
    cursor or on an unknown id yields ERR. -/
theorem reexec_discards (r : Reg) (id : Nat) (st : Stmt) (h : r.stmts id = some st) (cur : Bool) (res : Option Src) :
    (step r (.execute id cur res)).1.stmts id =
      some { cursor := match res with | some s => if cur then some s else none | none => none } := by
  simp only [step, h]
  cases res with
  | none => simp [upd]
  | some s => cases cur <;> simp [upd]

theorem reset_discards (r : Reg) (id : Nat) (st : Stmt) (h : r.stmts id = some st) (n : Nat) :
    (step (step r (.reset id)).1 (.fetch id n)).2 = .err := by
  simp [step, h, upd]

theorem close_discards (r : Reg) (id n : Nat) :
    (step (step r (.close id)).1 (.fetch id n)).2 = .err ∧
    (step (step r (.close id)).1 (.execute id c res)).2 = .err := by
  simp [step, upd]

theorem unknown_id_err (r : Reg) (id n : Nat) (h : r.stmts id = none) :
    (step r (.fetch id n)).2 = .err ∧ (step r (.reset id)).2 = .err ∧ (step r (.execute id c res)).2 = .err := by
  simp [step, h]

/-- a source that raises after its last row: the rows still arrive once, in order, followed by one ERR, and
    the cursor is then exhausted -/
theorem fetch_boom (rows : List Nat) (n : Nat) (h : rows.length < n) :
    fetchSrc { rows := rows, boom := true } n = (.rowsErr rows, { rows := [] }) := by
  unfold fetchSrc
  have : ¬ n ≤ rows.length := by omega
  simp [this]

/-- non-vacuity: 7 rows fetched 2, 2, 0, 5, 1 (the replay of design-time defect D11) -/
example : (fetches { rows := [0, 1, 2, 3, 4, 5, 6] } [2, 2, 0, 5, 1]).1 =
    [.rows [0, 1] .cursorExists, .rows [2, 3] .cursorExists, .rows [] .cursorExists,
     .rows [4, 5, 6] .lastRowSent, .rows [] .lastRowSent] := by decide

/-! ### the handlers themselves (`Mimic.Extracted.HandlersCode`, regenerated from `/repo` by `harness/pytrans3.py`)

`Connection.handle_stmt_fetch / handle_stmt_reset / handle_stmt_close` are translated statement by statement into
functions over the connection object (registry of prepared statements, list of outside effects), exceptions carrying the
object state at the raise.  `Spec row c res m` says that the handler result `res` from connection `c` is the model's
step result `m`: same registry (read off the dictionary by `absStmts`), same rows in the same order, the terminator the
model prescribes; `row` names packets and is arbitrary. -/
section code
open Mimic.Extracted.HandlersCode MimicProofs.HandlersCode
variable {S : Type} [DecidableEq S]

/-- **`handle_stmt_fetch` is the model's fetch** for every connection state, statement id, fetch size and cursor
    (raising ones included): the theorems above about `fetchSrc` / `step` are theorems about the code. -/
theorem fetch_is_code (row : Mimic.Py.Bytes → Nat) (c : Connection S) (data : Mimic.Py.Bytes) (f : Mimic.Extracted.ParsersCode.ComStmtFetch S)
    (nxt : Nat) (hp : Mimic.Extracted.ParsersCode.parse_handle_stmt_fetch (S := S) data = some f) :
    Spec row c (handle_stmt_fetch c data) (step ⟨absStmts row c, nxt⟩ (.fetch f.stmt_id f.num_rows)) :=
  handle_stmt_fetch_refines row c data f nxt hp

theorem reset_is_code (row : Mimic.Py.Bytes → Nat) (c : Connection S) (data : Mimic.Py.Bytes) (f : Mimic.Extracted.ParsersCode.ComStmtReset S)
    (nxt : Nat) (hp : Mimic.Extracted.ParsersCode.parse_com_stmt_reset (S := S) data = some f) :
    Spec row c (handle_stmt_reset c data) (step ⟨absStmts row c, nxt⟩ (.reset f.stmt_id)) :=
  handle_stmt_reset_refines row c data f nxt hp

theorem close_is_code (row : Mimic.Py.Bytes → Nat) (c : Connection S) (data : Mimic.Py.Bytes) (f : Mimic.Extracted.ParsersCode.ComStmtClose S)
    (nxt : Nat) (hp : Mimic.Extracted.ParsersCode.parse_com_stmt_close (S := S) data = some f) :
    Spec row c (handle_stmt_close c data) (step ⟨absStmts row c, nxt⟩ (.close f.stmt_id)) :=
  handle_stmt_close_refines row c data f nxt hp

/-- **Every row exactly once, in order, for every sequence of fetch sizes — on the translated code, byte for byte.**
    After any list of COM_STMT_FETCH packets for statement `id` (any sizes, zero and beyond-the-end included) run one after
    the other by the command loop, the row packets written are exactly the first `Σ sizes` packets of the cursor in
    order (nothing skipped, nothing repeated), the statement's cursor holds exactly the remaining ones, and no other
    statement changed. -/
theorem code_fetches_in_order (id : Nat) (pkts : List (Mimic.Py.Bytes × Mimic.Extracted.ParsersCode.ComStmtFetch S)) (c : Connection S)
    (stmt : PreparedStatement S) (rows : List Mimic.Py.Bytes)
    (hp : ∀ x ∈ pkts, Mimic.Extracted.ParsersCode.parse_handle_stmt_fetch (S := S) x.1 = some x.2 ∧ x.2.stmt_id = id)
    (hget : Mimic.Py.dictGet c.prepared_stmts id = some stmt) (hcur : stmt.cursor = some ⟨rows, false⟩) :
    (∃ tail, (runFetches c (pkts.map (·.1))).out = c.out ++ tail ∧ rowsOut tail = rows.take (pkts.map (·.2.num_rows)).sum) ∧
    Mimic.Py.dictGet (runFetches c (pkts.map (·.1))).prepared_stmts id
      = some { stmt with cursor := some ⟨rows.drop (pkts.map (·.2.num_rows)).sum, false⟩ } ∧
    (∀ k, k ≠ id → Mimic.Py.dictGet (runFetches c (pkts.map (·.1))).prepared_stmts k = Mimic.Py.dictGet c.prepared_stmts k) :=
  MimicProofs.HandlersCode.code_fetches_in_order id pkts c stmt rows hp hget hcur

/-- a malformed COM_STMT_FETCH / RESET / CLOSE / SEND_LONG_DATA packet raises before anything is changed or written -/
theorem code_malformed_changes_nothing (c : Connection S) (data : Mimic.Py.Bytes) :
    (Mimic.Extracted.ParsersCode.parse_handle_stmt_fetch (S := S) data = none → handle_stmt_fetch c data = .error c) ∧
    (Mimic.Extracted.ParsersCode.parse_com_stmt_reset (S := S) data = none → handle_stmt_reset c data = .error c) ∧
    (Mimic.Extracted.ParsersCode.parse_com_stmt_close (S := S) data = none → handle_stmt_close c data = .error c) ∧
    (Mimic.Extracted.ParsersCode.parse_com_stmt_send_long_data (S := S) data = none → handle_stmt_send_long_data c data = .error c) :=
  malformed_changes_nothing c data

/-- **`handle_stmt_prepare` is the model's prepare**: the new statement is registered under the next id of the sequence
    (no cursor yet), no other statement changes, and the next id counts up modulo the extracted `_MAX_PREPARED_STMT_ID` -/
theorem prepare_is_code (row : Mimic.Py.Bytes → Nat) (E : Mimic.Py.Env S) (cp : S → Nat) (pc : Nat → Mimic.Py.Bytes) (c : Connection S)
    (data : Mimic.Py.Bytes) (sql : S) (hd : E.decode c.client_charset data = some sql)
    (hs : c.prepared_stmt_seq.size = some maxPreparedStmtId) :
    ∃ c', handle_stmt_prepare E cp pc c data = .ok c' ∧
      absStmts row c' = (step ⟨absStmts row c, c.prepared_stmt_seq.value⟩ .prepare).1.stmts ∧
      c'.prepared_stmt_seq.value = (step ⟨absStmts row c, c.prepared_stmt_seq.value⟩ .prepare).1.next ∧
      c'.prepared_stmt_seq.size = some maxPreparedStmtId :=
  handle_stmt_prepare_refines row E cp pc c data sql hd hs

/-- **`handle_stmt_execute` leaves the registry the model's `execute` step leaves**, however the execution ends (OK, result
    set, cursor opened, the application raising, the row source raising in the middle): re-executing discards the previous
    cursor before the application runs; a cursor is stored iff this is a cursor-opening execution with a result set, and
    it is the result's own row source; every other statement is untouched.  `parse` (the packet parser, proved in
    `ExecuteCode`) and `app` (the application) are arbitrary; `hreg`: the parser handed back the registry's object. -/
theorem execute_is_code (row : Mimic.Py.Bytes → Nat) (coldef : Nat → Nat → Mimic.Py.Bytes)
    (parse : Connection S → Mimic.Py.Bytes → Option (ComStmtExecute S)) (app : S → Option (ResultSet S))
    (c : Connection S) (data : Mimic.Py.Bytes) (x : ComStmtExecute S) (nxt : Nat) (hp : parse c data = some x)
    (hreg : Mimic.Py.dictGet c.prepared_stmts x.stmt.stmt_id = some x.stmt) (c' : Connection S)
    (hrun : handle_stmt_execute coldef parse app c data = .ok c' ∨ handle_stmt_execute coldef parse app c data = .error c') :
    absStmts row c' = (step ⟨absStmts row c, nxt⟩ (.execute x.stmt.stmt_id x.use_cursor (absResult row (app x.sql)))).1.stmts :=
  handle_stmt_execute_registry row coldef parse app c data x nxt hp hreg c' hrun

open MimicProofs.Frame in
/-- **Commands that name no statement disturb no cursor.**  A text query, a COM_PING, COM_DEBUG, COM_INIT_DB or COM_FIELD_LIST —
    succeeding, failing in the parser, in the application or half-way through its rows — leaves the whole registry of prepared
    statements, every cursor position and every long-data buffer exactly as it was: fetches before and after it continue the same
    cursors ("cursors … are independent" extended to the commands in between). -/
theorem code_unrelated_commands_leave_cursors (E : Mimic.Py.Env S) (coldef : Nat → Nat → Mimic.Py.Bytes) (app : S → Option (ResultSet S))
    (ur : S → Bool) (fls : Mimic.Extracted.ParsersCode.ComFieldList S → S) (fcd : Nat → S → Mimic.Py.Bytes → Mimic.Py.Bytes)
    (c : Connection S) (data : Mimic.Py.Bytes) :
    KeepsStmts c (handle_query E coldef app c data) ∧ KeepsStmts c (handle_ping c data) ∧ KeepsStmts c (handle_debug c data) ∧
    KeepsStmts c (handle_init_db E ur c data) ∧ KeepsStmts c (handle_field_list E app fls fcd c data) :=
  ⟨query_keeps_stmts E coldef app c data, (ping_debug_keep_stmts c data).1, (ping_debug_keep_stmts c data).2,
   init_db_keeps_stmts E ur c data, field_list_keeps_stmts E app fls fcd c data⟩

open MimicProofs.Indep Mimic.Extracted.ParsersCode in
/-- **Cursors of different statements are independent, on the code.**  A COM_STMT_FETCH, COM_STMT_RESET, COM_STMT_CLOSE,
    COM_STMT_SEND_LONG_DATA or COM_STMT_EXECUTE naming statement `k` leaves every registry entry `j ≠ k` — cursor position,
    long-data buffers, text — exactly as it was, in every outcome: returned or raised, cursor exhausted, the row source failing
    half-way, unknown id.  COM_STMT_PREPARE touches only the entry of the id it announces. -/
theorem code_statement_commands_touch_only_their_statement (E : Mimic.Py.Env S) (cp : S → Nat) (pc : Nat → Mimic.Py.Bytes)
    (coldef : Nat → Nat → Mimic.Py.Bytes) (parse : Connection S → Mimic.Py.Bytes → Option (ComStmtExecute S))
    (app : S → Option (ResultSet S)) (c : Connection S) (data : Mimic.Py.Bytes) :
    (∀ f, parse_handle_stmt_fetch (S := S) data = some f → Others c f.stmt_id (handle_stmt_fetch c data)) ∧
    (∀ f, parse_com_stmt_reset (S := S) data = some f → Others c f.stmt_id (handle_stmt_reset c data)) ∧
    (∀ f, parse_com_stmt_close (S := S) data = some f → Others c f.stmt_id (handle_stmt_close c data)) ∧
    (∀ f, parse_com_stmt_send_long_data (S := S) data = some f → Others c f.stmt_id (handle_stmt_send_long_data c data)) ∧
    (∀ x, parse c data = some x → Others c x.stmt.stmt_id (handle_stmt_execute coldef parse app c data)) ∧
    Others c c.prepared_stmt_seq.value (handle_stmt_prepare E cp pc c data) :=
  ⟨fun f h => fetch_others c data f h, fun f h => reset_others c data f h, fun f h => close_others c data f h,
   fun f h => send_long_data_others c data f h, fun x h => execute_others coldef parse app c data x h, prepare_others E cp pc c data⟩

/-- the id space the model counts in is the code's `Connection._MAX_PREPARED_STMT_ID` (extracted) -/
theorem stmt_id_space : maxPreparedStmtId = 4294967296 := by decide

/-- non-vacuity: a concrete connection with one statement whose cursor holds three packets; fetches of 2 and 5 -/
example :
    let c : Connection Unit := ⟨0, 0, [(7, ⟨7, (), 0, none, some ⟨[[1], [2], [3]], false⟩⟩)], [], ⟨some maxPreparedStmtId, 8⟩, 45, 45, false⟩
    let d (n : UInt8) : Mimic.Py.Bytes := [7, 0, 0, 0, n, 0, 0, 0]
    rowsOut (runFetches c [d 2, d 5]).out = [[1], [2], [3]] := by decide

end code

end MimicProps.C11
