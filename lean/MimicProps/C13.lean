import Mimic.Dispatch
import Mimic.Extracted.Session
import Mimic.Extracted.DispatchCode
import MimicProofs.HandlersCode
import MimicProofs.CommandLoop
/-!
# C13 — The application sees exactly the statements it must handle, once, in order

The middleware chain is the list extracted from `Session.__init__` on every run (`Extracted.Session.middlewareNames`),
mapped to the model's interceptors; the catalog databases are the keys of `INFO_SCHEMA`.

* `each_statement_once_in_order` / `_partial_on_failure`: the session's history for a text has one entry per statement, in
  textual order (all of them if nothing raises, a prefix closed by the raising statement otherwise);
* `entry_decisions`: every entry's handler is the chain's decision for that statement under the database current at
  that moment; `library_iff`: that decision is "library" exactly for session-control statements, FROM-less selects
  and queries whose tables all resolve to catalog databases;
* `app_calls_are_forwarded_in_order`: the application's call log is exactly the forwarded statements, each once, in order;
* `client_gets_last`: the result handed to the client is that of the last statement;
* `database_tracks_client`: the database observed with every statement is the one last selected by the client.
-/
namespace MimicProps.C13
open Mimic.Dispatch

/-- the code's chain -/
def order : List Mw := Mimic.Extracted.Session.middlewareNames.filterMap Mw.ofName
def cat : List String := Mimic.Extracted.Session.catalogDbs

/-- every name in the code's middleware list is one the model knows (a new middleware breaks this) -/
theorem chain_known : Mimic.Extracted.Session.middlewareNames.all (fun n => (Mw.ofName n).isSome) = true := by decide

/-- the chain contains every interceptor exactly once -/
theorem chain_complete : ∀ m : Mw, order.count m = 1 := by
  intro m; cases m <;> decide

/-- `handle_query` builds one chain per statement with the client's own SQL text and attributes, the session's
    middleware list, and the application's `query` at the end -/
theorem query_args_pass_client_text :
    Mimic.Extracted.Session.queryArgs = [("expression", "expression"), ("sql", "sql"), ("attrs", "attrs"),
      ("_middlewares", "self.middlewares"), ("_query", "self.query")] ∧ Mimic.Extracted.Session.loopSource = "self._parse(sql)" := by
  decide

/-- the chain is entered through `next()`, which hands each middleware the rest of the chain: every middleware is
    entered at most once per statement -/
theorem chain_entered_through_next : Mimic.Extracted.Session.startBody = "return await self.next()" := by decide

/-- each interceptor tests the statement class the model assumes, and falls through to `q.next()` -/
theorem intercept_tests :
    Mimic.Extracted.Session.interceptTests.map (fun t => (t.1, t.2.1)) =
      [("_set_var_middleware", "-"), ("_replace_variables_middleware", "exp.Set"), ("_set_middleware", "exp.Set"),
       ("_static_query_middleware", "exp.Select"), ("_use_middleware", "exp.Use"), ("_kill_middleware", "exp.Kill"),
       ("_show_middleware", "exp.Show"), ("_describe_middleware", "exp.Describe"), ("_begin_middleware", "exp.Transaction"),
       ("_commit_middleware", "exp.Commit"), ("_rollback_middleware", "exp.Rollback"), ("_info_schema_middleware", "-")]
    ∧ Mimic.Extracted.Session.interceptTests.all (fun t => 1 ≤ t.2.2) = true := by
  decide

/-! ### who answers -/

theorem route_none_iff (ord : List Mw) (c : List String) (cur : Option String) (s : Stmt) :
    route ord c cur s = none ↔ ∀ m ∈ ord, intercepts c cur m s = false := by
  unfold route
  rw [List.find?_eq_none]
  constructor
  · intro h m hm; simpa using h m hm
  · intro h m hm; simp [h m hm]

def isControl : Kind → Bool
  | .set | .use | .kill | .show | .describeTable | .begin | .commit | .rollback => true
  | _ => false

/-- **Library or application.**  With the code's chain a statement is answered by the library iff it is a
    session-control statement, a FROM-less SELECT, or a query all of whose tables (unqualified ones resolved to the
    current database) live in catalog databases; every other statement reaches the application. -/
theorem library_iff (cur : Option String) (s : Stmt) :
    (route order cat cur s).isSome = (isControl s.kind || (s.kind = .select && s.static) || catalogOnly cat cur s) := by
  have ho : order = [.setVar, .replaceVars, .set, .static, .use, .kill, .show, .describe, .begin, .commit, .rollback, .infoSchema] := by decide
  rw [ho]
  unfold route
  cases hk : s.kind <;> cases hs : s.static <;> cases hc : catalogOnly cat cur s <;>
    simp [List.find?, intercepts, hk, hs, hc, isControl]

/-- a USE statement is answered by the USE interceptor and nothing else is -/
theorem use_iff (cur : Option String) (s : Stmt) : route order cat cur s = some .use ↔ s.kind = .use := by
  have ho : order = [.setVar, .replaceVars, .set, .static, .use, .kill, .show, .describe, .begin, .commit, .rollback, .infoSchema] := by decide
  rw [ho]
  unfold route
  cases hk : s.kind <;> cases hs : s.static <;> cases hc : catalogOnly cat cur s <;>
    simp [List.find?, intercepts, hk, hs, hc]

/-- **the catalog-routing decision of the code, translated from `_info_schema_middleware` on every run, is the model's
    `catalogOnly`**: for every query (SELECT / set operation), every list of table qualifiers (`none` = unqualified —
    the code sees `""`) and every current database -/
theorem routing_is_code (c : List String) (cur : Option String) (s : Stmt) (hq : s.kind = .select ∨ s.kind = .setop)
    (hne : ∀ d ∈ s.dbs, d ≠ some "") :
    Mimic.Extracted.DispatchCode.info_schema_intercepts (s.dbs.map (fun d => d.getD "")) cur c = catalogOnly c cur s := by
  unfold Mimic.Extracted.DispatchCode.info_schema_intercepts catalogOnly
  have hk : (decide (s.kind = .select ∨ s.kind = .setop)) = true := by simpa using hq
  simp only [hk, Bool.true_and, List.map_map, List.isEmpty_map]
  have hmap : (s.dbs.map ((fun db => if db ≠ "" then db else if cur.getD "" ≠ "" then cur.getD "" else "") ∘ fun d => d.getD "")) =
      s.dbs.map (fun d => match d with | some x => x | none => cur.getD "") := by
    apply List.map_congr_left
    intro d hd
    cases d with
    | none => simp
    | some x =>
      have : x ≠ "" := fun h => hne (some x) hd (by rw [h])
      simp [this]
  rw [hmap]
  rfl

/-! ### one entry per statement, in order -/

/-- **Each statement is handled exactly once, in textual order** (nothing raises). -/
theorem each_statement_once_in_order (ord : List Mw) (c : List String) (stmts : List Stmt) (hf : ∀ s ∈ stmts, s.fails = false) :
    ∀ db, (handleQuery ord c db stmts).trace.map (·.tag) = stmts.map (·.tag) ∧ (handleQuery ord c db stmts).failed = false := by
  induction stmts with
  | nil => intro db; simp [handleQuery]
  | cons s rest ih =>
    intro db
    have hs : s.fails = false := hf s (by simp)
    have := ih (fun x hx => hf x (by simp [hx])) (if route ord c db s = some .use then some s.useDb else db)
    simp only [handleQuery, hs, Bool.false_eq_true, if_false, List.map_cons, this.1, this.2, and_self]

/-- with a raising statement: the history is the statements up to and including the first one that raises — still
    once each, in order; nothing after it is run -/
theorem each_statement_once_in_order_on_failure (ord : List Mw) (c : List String) (pre : List Stmt) (bad : Stmt) (post : List Stmt)
    (hp : ∀ s ∈ pre, s.fails = false) (hb : bad.fails = true) :
    ∀ db, (handleQuery ord c db (pre ++ bad :: post)).trace.map (·.tag) = (pre ++ [bad]).map (·.tag)
      ∧ (handleQuery ord c db (pre ++ bad :: post)).failed = true := by
  induction pre with
  | nil => intro db; simp [handleQuery, hb]
  | cons s rest ih =>
    intro db
    have hs : s.fails = false := hp s (by simp)
    have := ih (fun x hx => hp x (by simp [hx])) (if route ord c db s = some .use then some s.useDb else db)
    simp only [List.cons_append, handleQuery, hs, Bool.false_eq_true, if_false, List.map_cons, this.1, this.2, and_self]

/-- the database current when each statement is handled, by the specification: the last USE before it, else the
    database the text started with -/
def dbBefore (db : Option String) : List Stmt → List (Option String)
  | [] => []
  | s :: rest => db :: dbBefore (if s.kind = .use then some s.useDb else db) rest

/-- **Every entry is the chain's decision under the database last selected** (code's chain, nothing raises):
    entry i = (tag of statement i, database after the USEs before it, decision for statement i). -/
theorem entry_decisions (stmts : List Stmt) (hf : ∀ s ∈ stmts, s.fails = false) :
    ∀ db, (handleQuery order cat db stmts).trace =
      (stmts.zip (dbBefore db stmts)).map (fun p => ⟨p.1.tag, p.2, route order cat p.2 p.1⟩) := by
  induction stmts with
  | nil => intro db; simp [handleQuery, dbBefore]
  | cons s rest ih =>
    intro db
    have hs : s.fails = false := hf s (by simp)
    have hu : (if route order cat db s = some .use then some s.useDb else db) = (if s.kind = .use then some s.useDb else db) := by
      by_cases h : s.kind = .use
      · simp [h, (use_iff db s).mpr h]
      · have : route order cat db s ≠ some .use := fun hh => h ((use_iff db s).mp hh)
        simp [h, this]
    simp only [handleQuery, hs, Bool.false_eq_true, if_false, dbBefore, List.zip_cons_cons, List.map_cons, hu]
    rw [ih (fun x hx => hf x (by simp [hx]))]

/-- **The application's call log is exactly the forwarded statements, each once, in order**, each with the database
    last selected before it. -/
theorem app_calls_are_forwarded_in_order (stmts : List Stmt) (hf : ∀ s ∈ stmts, s.fails = false) (db : Option String) :
    appCalls (handleQuery order cat db stmts).trace =
      ((stmts.zip (dbBefore db stmts)).filter (fun p => (route order cat p.2 p.1).isNone)).map (fun p => (p.1.tag, p.2)) := by
  rw [entry_decisions stmts hf db]
  unfold appCalls
  rw [List.filter_map, List.map_map]
  rfl

/-- **The client receives the result of the last statement.** -/
theorem client_gets_last (ord : List Mw) (c : List String) (stmts : List Stmt) (last : Stmt) (hf : ∀ s ∈ stmts ++ [last], s.fails = false) (db : Option String) :
    (answeredBy (handleQuery ord c db (stmts ++ [last])).trace).map (·.tag) = some last.tag := by
  have h := (each_statement_once_in_order ord c (stmts ++ [last]) hf db).1
  unfold answeredBy
  rw [← List.getLast?_map, h]
  simp

/-! ### the database follows the client's selections -/

/-- a statement that selects nothing (marks the end of a text) -/
def nop : Stmt := ⟨.other, false, [], "", 0, false⟩

/-- specification: the database last selected by the client after a history of selection events -/
def lastSelected (db : Option String) : List Sel → Option String
  | [] => db
  | .handshake d :: rest => lastSelected d rest
  | .initDb d :: rest => lastSelected (some d) rest
  | .changeUser d :: rest => lastSelected d rest
  | .text stmts :: rest => lastSelected ((dbBefore db (stmts ++ [nop])).getLast?.getD db) rest

theorem handleQuery_database (stmts : List Stmt) (hf : ∀ s ∈ stmts, s.fails = false) :
    ∀ db, (handleQuery order cat db stmts).database = (dbBefore db (stmts ++ [nop])).getLast?.getD db := by
  induction stmts with
  | nil => intro db; simp [handleQuery, dbBefore]
  | cons s rest ih =>
    intro db
    have hs : s.fails = false := hf s (by simp)
    have hu : (if route order cat db s = some .use then some s.useDb else db) = (if s.kind = .use then some s.useDb else db) := by
      by_cases h : s.kind = .use
      · simp [h, (use_iff db s).mpr h]
      · have : route order cat db s ≠ some .use := fun hh => h ((use_iff db s).mp hh)
        simp [h, this]
    simp only [handleQuery, hs, Bool.false_eq_true, if_false, hu, List.cons_append, dbBefore]
    rw [ih (fun x hx => hf x (by simp [hx]))]
    cases hr : dbBefore (if s.kind = .use then some s.useDb else db) (rest ++ [nop]) with
    | nil =>
      have : (dbBefore (if s.kind = .use then some s.useDb else db) (rest ++ [nop])).length = (rest ++ [nop]).length := by
        generalize (if s.kind = .use then some s.useDb else db) = d
        generalize (rest ++ [nop]) = l
        induction l generalizing d with
        | nil => rfl
        | cons a l ih2 => simp [dbBefore, ih2]
      rw [hr] at this; simp at this
    | cons a l => simp [List.getLast?_cons_cons, List.getLast?_eq_some_getLast (List.cons_ne_nil a l)]

/-- **The database the application observes is the one last selected by the client** — handshake, COM_INIT_DB, USE,
    COM_CHANGE_USER — for every history of such events interleaved with texts (none of which raises). -/
theorem database_tracks_client (evs : List Sel)
    (hf : ∀ e ∈ evs, match e with | .text stmts => ∀ s ∈ stmts, s.fails = false | _ => True) :
    ∀ db, (connRun order cat db evs).1 = lastSelected db evs := by
  induction evs with
  | nil => intro db; rfl
  | cons e rest ih =>
    intro db
    have ih' := ih (fun x hx => hf x (by simp [hx]))
    cases e with
    | handshake d => simp [connRun, lastSelected, ih']
    | initDb d => simp [connRun, lastSelected, ih']
    | changeUser d => simp [connRun, lastSelected, ih']
    | text stmts =>
      have h := hf (.text stmts) (by simp)
      simp only [connRun, lastSelected]
      rw [ih', handleQuery_database stmts h]

/-! ### non-vacuity -/

private def sel (t : Nat) (dbs : List (Option String)) : Stmt := ⟨.select, false, dbs, "", t, false⟩
private def useS (t : Nat) (d : String) : Stmt := ⟨.use, false, [], d, t, false⟩

/-- `select from t; use information_schema; select from tables; select from db.t; select 1` after handshake db `app`:
    the application sees statements 0 and 3 with databases app / information_schema; the client gets the last one -/
example :
    appCalls (handleQuery order cat (some "app") [sel 0 [none], useS 1 "information_schema", sel 2 [none], sel 3 [some "db"],
      ⟨.select, true, [], "", 4, false⟩]).trace = [(0, some "app"), (3, some "information_schema")] := by decide

example : (route order cat (some "INFORMATION_SCHEMA") (sel 0 [none, some "mysql"])).isSome = true := by decide
example : (route order cat (some "x") (sel 0 [none, some "mysql"])) = none := by decide

/-! ### COM_INIT_DB on the translated handler (`Mimic.Extracted.HandlersCode`) -/
section handlers
open Mimic.Extracted.HandlersCode MimicProofs.HandlersCode
variable {S : Type} [DecidableEq S]

/-- **The application observes exactly the database the client selected with COM_INIT_DB**: `handle_init_db`, translated,
    calls the session's `use` with the payload decoded in the client character set — nothing else, exactly once — and
    answers with one OK unless the callback raises; an undecodable name raises before the application hears anything. -/
theorem init_db_is_code (E : Mimic.Py.Env S) (ur : S → Bool) (c : Connection S) (data : Mimic.Py.Bytes) :
    match Mimic.Extracted.ParsersCode.parse_com_init_db E c.client_charset data with
    | none => handle_init_db E ur c data = .error c
    | some db =>
      if ur db then handle_init_db E ur c data = .error { c with out := c.out ++ [Ev.session_use db] }
      else ∃ (e : Bool) (a l w f : Nat),
        handle_init_db E ur c data = .ok { c with out := c.out ++ [Ev.session_use db, Ev.write (ok c e a l w f) true] } :=
  handle_init_db_spec E ur c data

open MimicProofs.CommandLoop in
/-- **A whole COM_INIT_DB exchange on the code** (one iteration of the generated command loop on the packet `0x02 · name`): the
    application's `use` hears of the selection exactly once, with the name decoded in the client character set, before anything
    is written; it hears nothing when the name does not decode; the client gets exactly one OK, or exactly one ERR iff decoding or
    `use` failed; the loop goes on. -/
theorem code_init_db_exchange (E : Mimic.Py.Env S) (cp : S → Nat) (pc : Nat → Mimic.Py.Bytes) (coldef : Nat → Nat → Mimic.Py.Bytes)
    (parse : Connection S → Mimic.Py.Bytes → Option (ComStmtExecute S)) (app : S → Option (ResultSet S))
    (ur : S → Bool) (fls : Mimic.Extracted.ParsersCode.ComFieldList S → S) (fcd : Nat → S → Mimic.Py.Bytes → Mimic.Py.Bytes)
    (other : Nat → Connection S → Mimic.Py.Bytes → Except (Connection S) (Connection S)) (err : Connection S → Mimic.Py.Bytes) (af : Nat → Connection S → Mimic.Py.Bytes → Option (Connection S))
    (c : Connection S) (rest : Mimic.Py.Bytes) :
    let c1 : Connection S := { c with _executing := true }
    match Mimic.Extracted.ParsersCode.parse_com_init_db E c.client_charset rest with
    | none => command_step E cp pc coldef parse app ur fls fcd other err af c (2 :: rest)
        = ({ c with _executing := false, out := c.out ++ [Ev.write (err { c with _executing := false }) true, Ev.reset_seq] }, true)
    | some db =>
      if ur db then
        command_step E cp pc coldef parse app ur fls fcd other err af c (2 :: rest)
          = ({ c with _executing := false,
                      out := c.out ++ [Ev.session_use db, Ev.write (err { c with _executing := false, out := c.out ++ [Ev.session_use db] }) true, Ev.reset_seq] }, true)
      else ∃ (e : Bool) (a l w f : Nat),
        command_step E cp pc coldef parse app ur fls fcd other err af c (2 :: rest)
          = ({ c with _executing := false, out := c.out ++ [Ev.session_use db, Ev.write (ok c1 e a l w f) true, Ev.reset_seq] }, true) :=
  init_db_exchange E cp pc coldef parse app ur fls fcd other err af c rest

end handlers

end MimicProps.C13
