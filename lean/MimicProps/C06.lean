import MimicProofs.Params
import Mimic.Extracted.Params
import MimicProofs.ParsersCode
import MimicProofs.ExecuteCode
import MimicProofs.HandlersCode
import MimicProofs.CommandLoop
/-!
# C06 — Prepared-statement parameters are bound as data, never as SQL
-/
namespace MimicProps.C06
open Mimic.Params Mimic.Wire

/-- **No value can end its literal.** For every string value `v` (quotes, backslashes, `?`, NUL, newlines, `%`, `_`,
    regex replacement syntax, any Unicode), every backslash-escape table of the dialect (with `\\ ↦ \`) and every
    following text not starting with a quote, lexing the rendered literal yields exactly `v` and stops exactly at
    the end of the literal: no tokens are added, nothing is altered by escape processing. -/
theorem literal_lexes_back (T : EscTable) (v rest : List Char) (hr : rest.head? ≠ some '\'') :
    lexString T (quoted v ++ rest) = some (v, rest) := by
  simp [quoted, lexString, lexBody_esc T v rest hr]

/-- **Single pass**: interpolating `a ++ b` = interpolating `a`, then `b` with the values `a` left over; values
    are spliced in verbatim and never rescanned, so a `?` inside an earlier value cannot be consumed by a later
    parameter and no value can change another parameter. -/
theorem interpolate_splice (a b : List Char) (vals : List (List Char)) :
    interp 0 (a ++ b) vals =
      (interp (quoteCount b) a vals).bind (fun r => (interp 0 b r.2).map (fun r2 => (r.1 ++ r2.1, r2.2))) := by
  simpa using interp_append 0 a b vals

/-- text without placeholders is otherwise unchanged -/
theorem interpolate_no_placeholder (s : List Char) (vals : List (List Char)) (h : phCount 0 s = 0) :
    interp 0 s vals = some (s, vals) := interp_none 0 s vals h

/-- **Prepare-time count = execute-time consumption**: substitution succeeds iff at least `phCount` values were
    supplied, and it consumes exactly `phCount` of them, in order. -/
theorem count_prepare_eq_execute (s : List Char) (vals : List (List Char)) :
    ((interp 0 s vals).isSome ↔ phCount 0 s ≤ vals.length) ∧
    ∀ out rest, interp 0 s vals = some (out, rest) → rest = vals.drop (phCount 0 s) := by
  refine ⟨⟨fun h => ?_, interp_isSome 0 s vals⟩, fun out rest h => (interp_drop 0 s vals out rest h).1⟩
  cases hx : interp 0 s vals with
  | none => simp [hx] at h
  | some r => exact (interp_drop 0 s vals r.1 r.2 (by simp [hx])).2

/-- **Question marks inside quoted strings or identifiers are not placeholders** — on the property's template
    grammar (runs delimited by one kind of quote containing no other quote character; `SimplyQuoted`): the
    substitution is exactly "replace the `?` outside quoted runs, in order, copy everything else".
    The unrestricted statement (arbitrary mixtures such as `'a"b'`) is false of the regex and outside the
    property's quantifier; this theorem is therefore named `_partial`. -/
theorem placeholders_outside_quotes_partial (segs : List Seg) (h : ∀ g ∈ segs, g.ok) (vals : List (List Char)) :
    interp 0 (render segs) vals = fillSegs segs vals := interp_render segs h vals

/-- **Parameter decoding round trip** (`_read_params`): any tuple of bound parameters — NULLs via the bitmap,
    integers of every width and signedness, strings, floats — sent with `new_params_bound = 1` is decoded to the
    same tuple, and decoding stops exactly behind the block. -/
theorem params_decode_roundtrip (valid : List Nat) (dec : Bytes → Option (List Char)) (qa : Bool) (items : List Item)
    (names : List (List Char)) (rest : Bytes) (hne : items ≠ []) (hok : ∀ i ∈ items, i.ok valid dec qa)
    (hnames : Mimic.Results.optAll (items.map (fun i => dec i.t.name)) = some names) :
    readParams valid dec qa items.length (fun _ => none) (encBlock qa items ++ rest) =
      some (names.zip (items.map (fun i => i.v)), rest) :=
  readParams_enc valid dec qa items names rest hne hok hnames

/-- integers of every width at any value in range, both signednesses -/
theorem int_param_roundtrip (dec : Bytes → Option (List Char)) (code k : Nat) (nm : Bytes) (rest : Bytes)
    (hk : (code, k) ∈ [(1, 1), (2, 2), (13, 2), (3, 4), (9, 4), (8, 8)]) :
    (∀ z, inSigned k z →
      readValue dec { code := code, unsigned := false, name := nm } (leN k (ofSigned k z) ++ rest) = some (.int z, rest)) ∧
    (∀ n, n < 256 ^ k →
      readValue dec { code := code, unsigned := true, name := nm } (leN k n ++ rest) = some (.int n, rest)) :=
  ⟨fun z hz => readValue_signed dec code k nm z rest hk hz, fun n hn => readValue_unsigned dec code k nm n rest hk hn⟩

/-- long data: chunks are appended in send order (`bytearray.extend`), so the value bound is the concatenation -/
def sendLong (buf : Option Bytes) (chunk : Bytes) : Option Bytes := some ((buf.getD []) ++ chunk)

theorem long_data_concat (chunks : List Bytes) :
    chunks.foldl sendLong none = if chunks = [] then none else some chunks.flatten := by
  have gen : ∀ (cs : List Bytes) (b : Bytes), cs.foldl sendLong (some b) = some (b ++ cs.flatten) := by
    intro cs
    induction cs with
    | nil => intro b; simp
    | cons c cs ih => intro b; simp [sendLong, ih]
  cases chunks with
  | nil => rfl
  | cons c cs => simp [sendLong, gen]

/-- the source facts the model was written for, re-extracted from `/repo` on every run: the placeholder regex,
    the escaping applied to string parameters (backslash first, then quote), the single-pass substitution with a
    callable replacement, and the set of string parameter types -/
theorem source_facts :
    Mimic.Extracted.Params.regexParamSource = "\\?(?=(?:[^\"'`]*[\"'`][^\"'`]*[\"'`])*[^\"'`]*$)" ∧
    Mimic.Extracted.Params.escapeReplacements = [("\\", "\\\\"), ("'", "''")] ∧
    Mimic.Extracted.Params.substitutionSinglePass = true ∧
    (∀ c, Mimic.Extracted.Params.paramStringCodes.contains c = strCodes.contains c) := by
  refine ⟨by decide, by decide, by decide, ?_⟩
  intro c
  simp only [Mimic.Extracted.Params.paramStringCodes, strCodes, List.contains_eq_mem, List.mem_cons, List.mem_nil_iff,
    or_false]
  by_cases h1 : c = 15 <;> by_cases h2 : c = 249 <;> by_cases h3 : c = 250 <;> by_cases h4 : c = 251 <;>
    by_cases h5 : c = 252 <;> by_cases h6 : c = 253 <;> by_cases h7 : c = 254 <;> simp_all

/-- non-vacuity: the classic injection attempt and a `?` inside a value -/
example : quoted "a' OR '1'='1".toList = "'a'' OR ''1''=''1'".toList := by decide
example : (interp 0 "select ?, '?', ? from t".toList [quoted "?".toList, quoted "b".toList]).map Prod.fst =
    some "select '?', '?', 'b' from t".toList := by decide

/-! ### the code itself (`Mimic.Extracted.ParsersCode`, regenerated from `/repo` by `harness/pytrans2.py`) -/

/-- **`_read_params` of `packets.py`, translated, is the model's `readParams`** — for every packet, parameter count,
    capability set and long-data table: the theorems of this file about `readParams` are theorems about the code -/
theorem read_params_is_code (E : Mimic.Py.Env (List Char)) (caps cs : Nat) (valid : List Nat)
    (hv : ∀ n, E.validType n = valid.contains n) (hE : E.decode cs [] = some E.empty) (count : Nat)
    (buffers : Option (List (Nat × Mimic.Py.Bytes))) (r : Mimic.Py.Bytes) (hr : r.length < 2 ^ 63) :
    Mimic.Extracted.ParsersCode.read_params E r caps cs count buffers
      = (readParams valid (E.decode cs) (Mimic.Py.hasBit caps 27) count (MimicProofs.ParsersCode.bufFn buffers) r).map
          MimicProofs.ParsersCode.pOut :=
  MimicProofs.ParsersCode.read_params_eq E caps cs valid hv hE count buffers r hr

/-- **code-level parameter round trip**: the translated `_read_params` decodes the block a client builds from any
    non-empty tuple of bound parameters to exactly that tuple (names, NULLs, every integer width and signedness, strings,
    floats) and stops exactly behind the block -/
theorem code_params_decode_roundtrip (E : Mimic.Py.Env (List Char)) (caps cs : Nat) (valid : List Nat)
    (hv : ∀ n, E.validType n = valid.contains n) (hE : E.decode cs [] = some E.empty)
    (items : List Item) (names : List (List Char)) (rest : Bytes) (hne : items ≠ [])
    (hok : ∀ i ∈ items, i.ok valid (E.decode cs) (Mimic.Py.hasBit caps 27))
    (hnames : Mimic.Results.optAll (items.map (fun i => E.decode cs i.t.name)) = some names)
    (hlen : (encBlock (Mimic.Py.hasBit caps 27) items ++ rest).length < 2 ^ 63) :
    Mimic.Extracted.ParsersCode.read_params E (encBlock (Mimic.Py.hasBit caps 27) items ++ rest) caps cs items.length none
      = some (MimicProofs.ParsersCode.pOut (names.zip (items.map (fun i => i.v)), rest)) := by
  rw [MimicProofs.ParsersCode.read_params_eq E caps cs valid hv hE items.length none _ hlen]
  have hb : MimicProofs.ParsersCode.bufFn none = fun _ => none := rfl
  rw [hb, params_decode_roundtrip valid (E.decode cs) _ items names rest hne hok hnames]
  rfl

/-- the translated `_read_param_value` is the model's `readValue` -/
theorem read_param_value_is_code (E : Mimic.Py.Env (List Char)) (r : Mimic.Py.Bytes) (cs code : Nat) (u : Bool) (nm : Bytes) :
    (Mimic.Extracted.ParsersCode.read_param_value E r cs code u).map (fun x => (MimicProofs.ParsersCode.toPVal x.1, x.2))
      = readValue (E.decode cs) ⟨code, u, nm⟩ r :=
  MimicProofs.ParsersCode.read_param_value_eq E r cs code u nm

/-- **`parse_com_stmt_execute` of `packets.py`, translated, is the model's `parseExecute`** — statement lookup, cursor
    flags, iteration count, transmitted parameter count, `_read_params`, the literals of `_encode_param_as_sql` and the
    single-pass `REGEX_PARAM.sub` — for every packet, capability set, statement and long-data table.  Hypotheses: the
    meaning of `REGEX_PARAM` (`E.paramAt = isPh 0`; its source text is pinned by `source_facts`), the extracted
    `ColumnType` table, `decode(b"") = ""`, a packet shorter than 2^63 bytes. -/
theorem parse_com_stmt_execute_is_code (E : Mimic.Py.Env (List Char)) (caps cs : Nat) (valid : List Nat)
    (hv : ∀ n, E.validType n = valid.contains n) (hE : E.decode cs [] = some E.empty) (hP : E.paramAt = isPh 0)
    (get_stmt : Nat → Option (Mimic.Extracted.ParsersCode.PreparedStatement (List Char))) (data : Bytes) (hr : data.length < 2 ^ 63) :
    (Mimic.Extracted.ExecuteCode.parse_com_stmt_execute E caps cs data get_stmt).map (fun x => (x.sql, x.query_attrs, x.use_cursor))
      = match readUInt 4 data with
        | none => none
        | some (sid, after) =>
          match get_stmt sid with
          | none => none
          | some st => (parseExecute valid (E.decode cs) E.fltText (Mimic.Py.hasBit caps 27) (MimicProofs.ExecuteCode.toStmt st) after).map
                         (fun x => (x.1, x.2.1.map MimicProofs.ParsersCode.kvOut, x.2.2)) :=
  MimicProofs.ExecuteCode.parse_com_stmt_execute_eq E caps cs valid hv hE hP get_stmt data hr

/-- **code level: no string value can end its literal** — what the translated `_encode_param_as_sql` renders for any
    string lexes back to exactly that string and stops at the closing quote -/
theorem code_literal_lexes_back (E : Mimic.Py.Env (List Char)) (T : EscTable) (v rest : List Char) (hr : rest.head? ≠ some '\'') :
    lexString T (Mimic.Extracted.ExecuteCode.encode_param_as_sql E (.str v) ++ rest) = some (v, rest) := by
  rw [MimicProofs.ExecuteCode.encode_param_eq]
  exact literal_lexes_back T v rest hr

/-- non-vacuity at code level: the classic injection value through the translated encoder -/
example : Mimic.Extracted.ExecuteCode.encode_param_as_sql MimicProofs.ParsersCode.asciiEnv (.str "a' OR '1'='1".toList)
    = "'a'' OR ''1''=''1'".toList := by decide +kernel

/-! ### long data in the handlers themselves (`Mimic.Extracted.HandlersCode`) -/
section handlers
open Mimic.Extracted.HandlersCode MimicProofs.HandlersCode
variable {S : Type} [DecidableEq S]

/-- **`Connection.handle_stmt_send_long_data`, translated, is `sendLong`** on the addressed parameter of the addressed
    statement and the identity on everything else (other parameters, the cursor, the text, other statements, the wire:
    the command has no response); for an unknown statement id it does nothing at all. -/
theorem send_long_data_is_code (c : Connection S) (data : Mimic.Py.Bytes) (f : Mimic.Extracted.ParsersCode.ComStmtSendLongData S)
    (hp : Mimic.Extracted.ParsersCode.parse_com_stmt_send_long_data (S := S) data = some f) :
    match Mimic.Py.dictGet c.prepared_stmts f.stmt_id with
    | none => handle_stmt_send_long_data c data = .ok c
    | some stmt =>
      ∃ c' stmt', handle_stmt_send_long_data c data = .ok c' ∧ c'.out = c.out ∧
        (∀ k, k ≠ f.stmt_id → Mimic.Py.dictGet c'.prepared_stmts k = Mimic.Py.dictGet c.prepared_stmts k) ∧
        Mimic.Py.dictGet c'.prepared_stmts f.stmt_id = some stmt' ∧ stmt'.cursor = stmt.cursor ∧ stmt'.sql = stmt.sql ∧
        stmt'.num_params = stmt.num_params ∧
        ∀ pid, bufOf stmt' pid = if pid = f.param_id then sendLong (bufOf stmt pid) f.data else bufOf stmt pid := by
  have h := handle_stmt_send_long_data_spec c data f hp
  cases hget : Mimic.Py.dictGet c.prepared_stmts f.stmt_id with
  | none => simpa [hget] using h
  | some stmt =>
    simp only [hget] at h
    obtain ⟨c', stmt', h1, h2, _, _, h5, h6, h7, h8, h9, _, h11⟩ := h
    exact ⟨c', stmt', h1, h2, h5, h6, h7, h8, h9, h11⟩

/-- COM_STMT_RESET abandons the long data of the statement (and its cursor), on the translated handler -/
theorem reset_abandons_long_data_code (c : Connection S) (data : Mimic.Py.Bytes) (f : Mimic.Extracted.ParsersCode.ComStmtReset S)
    (stmt : PreparedStatement S) (hp : Mimic.Extracted.ParsersCode.parse_com_stmt_reset (S := S) data = some f)
    (hget : Mimic.Py.dictGet c.prepared_stmts f.stmt_id = some stmt) :
    ∃ c', handle_stmt_reset c data = .ok c' ∧
      Mimic.Py.dictGet c'.prepared_stmts f.stmt_id = some { stmt with param_buffers := none, cursor := none } :=
  handle_stmt_reset_clears_buffers c data f stmt hp hget

/-- **The prepare response announces exactly the placeholders that will be bound**: `handle_stmt_prepare`, translated,
    registers the statement with `num_params` = the number of placeholders of the decoded text (`count_params`, the
    meaning of `len(REGEX_PARAM.findall(sql))`), reports that number in the prepare-OK packet, and sends exactly that
    many parameter definitions (then the closing EOF unless deprecated); nothing follows the prepare-OK of a statement
    without placeholders. -/
theorem code_prepare_announces_placeholders (E : Mimic.Py.Env S) (cp : S → Nat) (pc : Nat → Mimic.Py.Bytes) (c : Connection S)
    (data : Mimic.Py.Bytes) (sql : S) (hd : E.decode c.client_charset data = some sql) :
    let st : PreparedStatement S := ⟨c.prepared_stmt_seq.value, sql, cp sql, none, none⟩
    ∃ c' w f, handle_stmt_prepare E cp pc c data = .ok c' ∧
      Mimic.Py.dictGet c'.prepared_stmts c.prepared_stmt_seq.value = some st ∧
      c'.out = c.out ++ (Ev.write (make_com_stmt_prepare_ok st) false ::
                 (List.replicate (cp sql) (Ev.write (pc c.server_charset) false) ++
                  (if cp sql = 0 ∨ deprecate_eof c = true then [] else [Ev.write (eof c w f) false]))) ++ [Ev.drain] := by
  intro st
  have h := handle_stmt_prepare_spec E cp pc c data
  simp only [hd] at h
  obtain ⟨c', w, f, hrun, hreg, _, _, _, hout⟩ := h
  refine ⟨c', w, f, hrun, by rw [hreg]; simp [dictGet_dictSet, st], ?_⟩
  rw [hout]
  unfold prepareResponse
  by_cases h0 : cp sql = 0
  · simp [h0, st]
  · cases hdep : deprecate_eof c <;> simp [h0, hdep, st]

/-- **An execution never leaves long data behind**: however `handle_stmt_execute` (translated) ends once its packet was
    parsed — OK, result set, cursor, the application raising, a row failing to encode — the statement is registered
    without long data afterwards, with its text and parameter count unchanged: the next execution binds only what is
    supplied for it. -/
theorem execute_discards_long_data_code (coldef : Nat → Nat → Mimic.Py.Bytes) (parse : Connection S → Mimic.Py.Bytes → Option (ComStmtExecute S))
    (app : S → Option (ResultSet S)) (c : Connection S) (data : Mimic.Py.Bytes) (x : ComStmtExecute S)
    (hp : parse c data = some x) (c' : Connection S)
    (hrun : handle_stmt_execute coldef parse app c data = .ok c' ∨ handle_stmt_execute coldef parse app c data = .error c') :
    ∃ st, Mimic.Py.dictGet c'.prepared_stmts x.stmt.stmt_id = some st ∧ st.param_buffers = none ∧ st.sql = x.stmt.sql ∧
      st.num_params = x.stmt.num_params :=
  handle_stmt_execute_discards_long_data coldef parse app c data x hp c' hrun

open MimicProofs.CommandLoop Mimic.Py in
/-- **A whole COM_STMT_PREPARE exchange on the code** (one iteration of the generated command loop on `0x16 · text`): the statement
    registered is the decoded text with the placeholder count `count_params` gives it (the `num_params` the prepare-OK announces
    and the execute consumes: `code_prepare_announces_placeholders`), under the id the response carries; the block is written and
    drained once; a text that does not decode gets exactly one ERR and registers nothing; the loop goes on. -/
theorem code_prepare_exchange (E : Mimic.Py.Env S) (cp : S → Nat) (pc : Nat → Mimic.Py.Bytes) (coldef : Nat → Nat → Mimic.Py.Bytes)
    (parse : Connection S → Mimic.Py.Bytes → Option (ComStmtExecute S)) (app : S → Option (ResultSet S))
    (ur : S → Bool) (fls : Mimic.Extracted.ParsersCode.ComFieldList S → S) (fcd : Nat → S → Mimic.Py.Bytes → Mimic.Py.Bytes)
    (other : Nat → Connection S → Mimic.Py.Bytes → Except (Connection S) (Connection S)) (err : Connection S → Mimic.Py.Bytes) (af : Nat → Connection S → Mimic.Py.Bytes → Option (Connection S))
    (c : Connection S) (rest : Mimic.Py.Bytes) :
    let c1 : Connection S := { c with _executing := true }
    match E.decode c.client_charset rest with
    | none => command_step E cp pc coldef parse app ur fls fcd other err af c (22 :: rest)
        = ({ c with _executing := false, out := c.out ++ [Ev.write (err { c with _executing := false }) true, Ev.reset_seq] }, true)
    | some sql =>
      let st : PreparedStatement S := { stmt_id := c.prepared_stmt_seq.value, sql := sql, num_params := cp sql, param_buffers := none, cursor := none }
      ∃ (c' : Connection S) (w f : Nat), command_step E cp pc coldef parse app ur fls fcd other err af c (22 :: rest)
          = ({ c' with _executing := false, out := c'.out ++ [Ev.reset_seq] }, true) ∧
        c'.prepared_stmts = dictSet c.prepared_stmts c.prepared_stmt_seq.value st ∧
        c'.prepared_stmt_seq = (seq_next c.prepared_stmt_seq).2 ∧
        c'.out = c.out ++ (prepareResponse pc c1 st w f).map (fun p => Ev.write p false) ++ [Ev.drain] :=
  prepare_exchange E cp pc coldef parse app ur fls fcd other err af c rest

end handlers

end MimicProps.C06
