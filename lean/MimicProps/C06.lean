import MimicProofs.Params
import Mimic.Extracted.Params
/-!
# C06 — Prepared-statement parameters are bound as data, never as SQL
-/
namespace MimicProps.C06
open Mimic.Params Mimic.Wire

/-- **No value can end its literal.** For every string value `v` (quotes, backslashes, `?`, NUL, newlines, `%`, `_`,
    regex replacement syntax, any Unicode), every backslash-escape table of the dialect (with `\\ ↦ \`) and every
    following text not starting with a quote, lexing the rendered literal yields exactly `v` and stops exactly at
    the end of the literal: no tokens are added, nothing is altered by escape processing. -/
theorem literal_lexes_back (T : EscTable) (v rest : List Char) (hr : rest.head? ≠ some '\'') :
    lexString T (quoted v ++ rest) = some (v, rest) := by
  simp [quoted, lexString, lexBody_esc T v rest hr]

/-- **Single pass**: interpolating `a ++ b` = interpolating `a`, then `b` with the values `a` left over; values
    are spliced in verbatim and never rescanned, so a `?` inside an earlier value cannot be consumed by a later
    parameter and no value can change another parameter. -/
theorem interpolate_splice (a b : List Char) (vals : List (List Char)) :
    interp 0 (a ++ b) vals =
      (interp (quoteCount b) a vals).bind (fun r => (interp 0 b r.2).map (fun r2 => (r.1 ++ r2.1, r2.2))) := by
  simpa using interp_append 0 a b vals

/-- text without placeholders is otherwise unchanged -/
theorem interpolate_no_placeholder (s : List Char) (vals : List (List Char)) (h : phCount 0 s = 0) :
    interp 0 s vals = some (s, vals) := interp_none 0 s vals h

/-- **Prepare-time count = execute-time consumption**: substitution succeeds iff at least `phCount` values were
    supplied, and it consumes exactly `phCount` of them, in order. -/
theorem count_prepare_eq_execute (s : List Char) (vals : List (List Char)) :
    ((interp 0 s vals).isSome ↔ phCount 0 s ≤ vals.length) ∧
    ∀ out rest, interp 0 s vals = some (out, rest) → rest = vals.drop (phCount 0 s) := by
  refine ⟨⟨fun h => ?_, interp_isSome 0 s vals⟩, fun out rest h => (interp_drop 0 s vals out rest h).1⟩
  cases hx : interp 0 s vals with
  | none => simp [hx] at h
  | some r => exact (interp_drop 0 s vals r.1 r.2 (by simp [hx])).2

/-- **Question marks inside quoted strings or identifiers are not placeholders** — on the property's template
    grammar (runs delimited by one kind of quote containing no other quote character; `SimplyQuoted`): the
    substitution is exactly "replace the `?` outside quoted runs, in order, copy everything else".
    The unrestricted statement (arbitrary mixtures such as `'a"b'`) is false of the regex and outside the
    property's quantifier; this theorem is therefore named `_partial`. -/
theorem placeholders_outside_quotes_partial (segs : List Seg) (h : ∀ g ∈ segs, g.ok) (vals : List (List Char)) :
    interp 0 (render segs) vals = fillSegs segs vals := interp_render segs h vals

/-- **Parameter decoding round trip** (`_read_params`): any tuple of bound parameters — NULLs via the bitmap,
    integers of every width and signedness, strings, floats — sent with `new_params_bound = 1` is decoded to the
    same tuple, and decoding stops exactly behind the block. -/
theorem params_decode_roundtrip (valid : List Nat) (dec : Bytes → Option (List Char)) (qa : Bool) (items : List Item)
    (names : List (List Char)) (rest : Bytes) (hne : items ≠ []) (hok : ∀ i ∈ items, i.ok valid dec qa)
    (hnames : Mimic.Results.optAll (items.map (fun i => dec i.t.name)) = some names) :
    readParams valid dec qa items.length (fun _ => none) (encBlock qa items ++ rest) =
      some (names.zip (items.map (fun i => i.v)), rest) :=
  readParams_enc valid dec qa items names rest hne hok hnames

/-- integers of every width at any value in range, both signednesses -/
theorem int_param_roundtrip (dec : Bytes → Option (List Char)) (code k : Nat) (nm : Bytes) (rest : Bytes)
    (hk : (code, k) ∈ [(1, 1), (2, 2), (13, 2), (3, 4), (9, 4), (8, 8)]) :
    (∀ z, inSigned k z →
      readValue dec { code := code, unsigned := false, name := nm } (leN k (ofSigned k z) ++ rest) = some (.int z, rest)) ∧
    (∀ n, n < 256 ^ k →
      readValue dec { code := code, unsigned := true, name := nm } (leN k n ++ rest) = some (.int n, rest)) :=
  ⟨fun z hz => readValue_signed dec code k nm z rest hk hz, fun n hn => readValue_unsigned dec code k nm n rest hk hn⟩

/-- long data: chunks are appended in send order (`bytearray.extend`), so the value bound is the concatenation -/
def sendLong (buf : Option Bytes) (chunk : Bytes) : Option Bytes := some ((buf.getD []) ++ chunk)

theorem long_data_concat (chunks : List Bytes) :
    chunks.foldl sendLong none = if chunks = [] then none else some chunks.flatten := by
  have gen : ∀ (cs : List Bytes) (b : Bytes), cs.foldl sendLong (some b) = some (b ++ cs.flatten) := by
    intro cs
    induction cs with
    | nil => intro b; simp
    | cons c cs ih => intro b; simp [sendLong, ih]
  cases chunks with
  | nil => rfl
  | cons c cs => simp [sendLong, gen]

/-- the source facts the model was written for, re-extracted from `/repo` on every run: the placeholder regex,
    the escaping applied to string parameters (backslash first, then quote), the single-pass substitution with a
    callable replacement, and the set of string parameter types -/
theorem source_facts :
    Mimic.Extracted.Params.regexParamSource = "\\?(?=(?:[^\"'`]*[\"'`][^\"'`]*[\"'`])*[^\"'`]*$)" ∧
    Mimic.Extracted.Params.escapeReplacements = [("\\", "\\\\"), ("'", "''")] ∧
    Mimic.Extracted.Params.substitutionSinglePass = true ∧
    (∀ c, Mimic.Extracted.Params.paramStringCodes.contains c = strCodes.contains c) := by
  refine ⟨by decide, by decide, by decide, ?_⟩
  intro c
  simp only [Mimic.Extracted.Params.paramStringCodes, strCodes, List.contains_eq_mem, List.mem_cons, List.mem_nil_iff,
    or_false]
  by_cases h1 : c = 15 <;> by_cases h2 : c = 249 <;> by_cases h3 : c = 250 <;> by_cases h4 : c = 251 <;>
    by_cases h5 : c = 252 <;> by_cases h6 : c = 253 <;> by_cases h7 : c = 254 <;> simp_all

/-- non-vacuity: the classic injection attempt and a `?` inside a value -/
example : quoted "a' OR '1'='1".toList = "'a'' OR ''1''=''1'".toList := by decide
example : (interp 0 "select ?, '?', ? from t".toList [quoted "?".toList, quoted "b".toList]).map Prod.fst =
    some "select '?', '?', 'b' from t".toList := by decide

end MimicProps.C06
