import MimicProofs.Auth
import MimicProofs.ConnLife
import MimicProofs.Script
import MimicProofs.ChangeUser
/-!
# C01 — No command is served on a connection that has not authenticated

Two layers: `Mimic.Auth.authenticate` (which packets are written and what the outcome is) and the connection
machine `Mimic.Conn` (what an outcome other than success does to the connection).
-/
namespace MimicProps.C01
open Mimic.Auth Mimic.Conn Mimic.Script Mimic.Wire

/-! ### the authentication exchange -/

/-- no OK unless authenticated -/
def NoOk (r : List AOut × ARes) : Prop := (∀ n, r.2 ≠ .authenticated n) → AOut.ok ∉ r.1

/-- **OK is written only if the exchange produced `success`.**  Whatever the identity-provider configuration, the
    route (handshake with a started default plugin, or COM_CHANGE_USER), the announced client plugin, the first
    response and the replies to switch / more-data requests: if the outcome is not `authenticated`, no OK packet
    is among the packets written. -/
theorem no_ok_without_success (H : Bytes → Bytes) (α : Bytes) (e : Env) (server : Option (Plugin × PState))
    (user : String) (resp : Bytes) (cp : Option String) (hsd : Option Bytes) (hsp : String) (draws : List Nat)
    (replies : List Bytes) : NoOk (authenticate H α e server user resp cp hsd hsp draws replies) := by
  have loop : ∀ p info fuel d st rs, NoOk (moreLoop H p info fuel d st rs) :=
    fun p info fuel d st rs h => moreLoop_no_ok H p info fuel d st rs _ _ rfl h
  have swi : ∀ up info cn data st rs, NoOk (afterSwitch H up info cn data st rs) := by
    intro up info cn data st rs
    cases rs with
    | nil => intro _; simp [afterSwitch]
    | cons r rs =>
      intro h
      simp only [afterSwitch] at h ⊢
      simp only [List.mem_cons, reduceCtorEq, false_or]
      exact loop _ _ _ _ _ _ h
  have fresh : ∀ up info draws rs, NoOk (startFresh H α up info draws rs) := by
    intro up info draws rs
    unfold startFresh
    split <;> first | exact swi _ _ _ _ _ _ | exact loop _ _ _ _ _ _
  have winfo : ∀ up info draws rs, NoOk (startWithInfo H α up info draws rs) :=
    fun up info draws rs => loop _ _ _ _ _ _
  unfold authenticate
  split
  · intro _; simp
  · split
    · intro _; simp
    · split
      · split
        · exact loop _ _ _ _ _ _
        · split
          · exact winfo _ _ _ _
          · exact fresh _ _ _ _
      · split
        · exact winfo _ _ _ _
        · exact fresh _ _ _ _

/-- when the exchange succeeds, the identity is the one a plugin decision vouched for and OK is the last packet -/
theorem success_ends_with_ok (H : Bytes → Bytes) (p : Plugin) (info : Info) (fuel : Nat) (d : Decision) (st : PState)
    (rs : List Bytes) (n : String) (h : (moreLoop H p info fuel d st rs).2 = .authenticated n) :
    (moreLoop H p info fuel d st rs).1.getLast? = some .ok :=
  (moreLoop_authenticated H p info fuel d st rs _ n (by rw [← h])).1

/-! ### what a failed exchange does to the connection -/

/-- a closed connection is absorbing: no event makes it serve anything, write anything, or call the session -/
theorem closed_absorbing (s : S) (ev : Ev) (h : s.phase = .closed) :
    (step s ev).phase = .closed ∧ (step s ev).out = s.out ∧ (step s ev).buf = s.buf ∧
    (step s ev).closeCalls = s.closeCalls ∧ (step s ev).initDone = s.initDone := by
  cases ev <;> simp [step, h]
  all_goals (try split) <;> simp_all

theorem closed_forever (evs : List Ev) : ∀ s : S, s.phase = .closed →
    (runAll s evs).phase = .closed ∧ (runAll s evs).out = s.out ∧ (runAll s evs).initDone = s.initDone ∧
    (runAll s evs).closeCalls = s.closeCalls := by
  induction evs with
  | nil => intro s h; exact ⟨h, rfl, rfl, rfl⟩
  | cons e es ih =>
    intro s h
    obtain ⟨h1, h2, _, h4, h5⟩ := closed_absorbing s e h
    obtain ⟨i1, i2, i3, i4⟩ := ih _ h1
    exact ⟨i1, i2.trans h2, i3.trans h5, i4.trans h4⟩

/-- **Failed handshake**: for a denied login, an unknown user or a malformed response the connection writes exactly
    one ERR after the greeting, never initialises the session, is closed and released — and whatever the client
    sends afterwards (`evs`: any commands, anything) produces no packet and no session call. -/
theorem failed_handshake_serves_nothing (l : Login) (hl : l = .denied ∨ l = .unknownUser ∨ l = .malformed) (evs : List Ev) :
    let s1 := step init (.handshake (loginScript l) false false)
    let s2 := runAll s1 evs
    s1.phase = .closed ∧ (∃ c, s1.out = [.greeting, .err c]) ∧
    s2.phase = .closed ∧ s2.out = s1.out ∧ s2.initDone = false ∧ s2.closeCalls = 0 ∧
    s2.registered = false ∧ s2.transportClosed = true := by
  have key : (step init (.handshake (loginScript l) false false)).phase = .closed ∧
      (∃ c, (step init (.handshake (loginScript l) false false)).out = [.greeting, .err c]) ∧
      (step init (.handshake (loginScript l) false false)).initDone = false ∧
      (step init (.handshake (loginScript l) false false)).closeCalls = 0 := by
    rcases hl with rfl | rfl | rfl <;>
      simp [step, init, loginScript, runConnPhase, runOps, flush, throwConn, release, runConnArm]
  obtain ⟨k1, k2, k3, k4⟩ := key
  have hf := closed_forever evs _ k1
  have hlc : LCInv (step init (.handshake (loginScript l) false false)) := by
    refine step_lc init _ ?_ init_lc
    intro op h
    rcases hl with rfl | rfl | rfl <;> simp [loginScript] at h <;> (try rcases h with rfl | rfl | rfl) <;> (try subst h) <;> rfl
  simp only [LCInv, k1] at hlc
  -- registered / transportClosed do not change once closed
  have hreg : ∀ (evs : List Ev) (s : S), s.phase = .closed → (runAll s evs).registered = s.registered ∧
      (runAll s evs).transportClosed = s.transportClosed := by
    intro evs
    induction evs with
    | nil => intro s _; exact ⟨rfl, rfl⟩
    | cons e es ih =>
      intro s h
      have hc := (closed_absorbing s e h).1
      have hs : (step s e).registered = s.registered ∧ (step s e).transportClosed = s.transportClosed := by
        cases e <;> simp [step, h]
        all_goals (try split) <;> simp_all
      obtain ⟨i1, i2⟩ := ih _ hc
      exact ⟨i1.trans hs.1, i2.trans hs.2⟩
  obtain ⟨r1, r2⟩ := hreg evs _ k1
  exact ⟨k1, k2, hf.1, hf.2.1, by rw [hf.2.2.1]; exact k3, by rw [hf.2.2.2]; exact k4, by rw [r1]; exact hlc.2.1,
    by rw [r2]; exact hlc.2.2⟩

/-- **Failed COM_CHANGE_USER** (denied, or failing with an exception): from an idle, healthy, initialised connection
    the command is answered by exactly one ERR, the session is closed exactly once, the connection is released, and
    nothing the client sends afterwards is served. -/
theorem failed_change_user_closes (s : S) (dep : Bool) (cmd : Cmd) (hcmd : cmd = .changeUser false ∨ cmd = .changeUserRaised)
    (hidle : s.phase = .idle) (hl : s.lost = false) (hb : s.blocked = false) (hbuf : s.buf = []) (hcf : s.closeFails = false)
    (evs : List Ev) :
    let s1 := step s (.cmd (scriptOf dep cmd))
    s1.phase = .closed ∧ (∃ c, s1.out = s.out ++ [.err c]) ∧ s1.closeCalls = s.closeCalls + 1 ∧
    (runAll s1 evs).phase = .closed ∧ (runAll s1 evs).out = s1.out := by
  have key : (step s (.cmd (scriptOf dep cmd))).phase = .closed ∧
      (∃ c, (step s (.cmd (scriptOf dep cmd))).out = s.out ++ [.err c]) ∧
      (step s (.cmd (scriptOf dep cmd))).closeCalls = s.closeCalls + 1 := by
    rcases hcmd with rfl | rfl <;>
      simp [step, hidle, scriptOf, runHandler, runOps, flush, hl, hb, hbuf, throwHandler, throwStart, closeSession, runClosing,
        release, hcf]
  have hf := closed_forever evs _ key.1
  exact ⟨key.1, key.2.1, key.2.2, hf.1, hf.2.1⟩

/-- non-vacuity: a state satisfying the hypotheses of `failed_change_user_closes` -/
example : ({ phase := .idle, initDone := true } : S).phase = .idle ∧ ({ phase := .idle, initDone := true } : S).lost = false := ⟨rfl, rfl⟩

/-! ### on the translated code: `handle_change_user` inside the generated command loop

`Connection.handle_change_user` is read from `/repo` on every run (`pytrans3.translate_change_user`); `_change_user` — packet
parsing, session variables and the authentication exchange, whose decision logic is this file's model above — is the parameter
`cu` with its three outcomes (returned / `AuthenticationFailed` / any other exception). -/
section code
open Mimic.Extracted.HandlersCode MimicProofs.ChangeUser
variable {S : Type} [DecidableEq S]

/-- **A failed COM_CHANGE_USER ends the command phase, once, and nothing sent after it is executed or answered.**  For every
    conversation `pre ++ [COM_CHANGE_USER] ++ post` whose command phase is still running after `pre`: if `_change_user` does not
    return — the exchange refused the credentials, the packet was malformed, the identity provider raised, anything — the loop
    returns there; the state and the wire are those of that single iteration (the exchange's own ERR, or exactly one ERR written
    by `handle_change_user`, then the sequence reset), and they do not depend on `post`: no handler runs for any later packet and
    no packet answers it. -/
theorem code_nothing_after_failed_change_user (E : Mimic.Py.Env S) (cp : S → Nat) (pc : Nat → Mimic.Py.Bytes) (coldef : Nat → Nat → Mimic.Py.Bytes)
    (parse : Connection S → Mimic.Py.Bytes → Option (ComStmtExecute S)) (app : S → Option (ResultSet S))
    (ur : S → Bool) (fls : Mimic.Extracted.ParsersCode.ComFieldList S → S) (fcd : Nat → S → Mimic.Py.Bytes → Mimic.Py.Bytes)
    (err : Connection S → Mimic.Py.Bytes) (cu : Connection S → Mimic.Py.Bytes → CUOut S) (cerr : Connection S → Mimic.Py.Bytes)
    (c : Connection S) (pre post : List Mimic.Py.Bytes) (payload : Mimic.Py.Bytes)
    (hpre : (loopCU E cp pc coldef parse app ur fls fcd err cu cerr c pre).2 = false)
    (hfail : ∀ s, cu { (loopCU E cp pc coldef parse app ur fls fcd err cu cerr c pre).1 with _executing := true } payload ≠ .returned s) :
    loopCU E cp pc coldef parse app ur fls fcd err cu cerr c (pre ++ (17 :: payload) :: post)
      = ((stepCU E cp pc coldef parse app ur fls fcd err cu cerr (loopCU E cp pc coldef parse app ur fls fcd err cu cerr c pre).1 (17 :: payload)).1, true) :=
  nothing_after_failed_change_user E cp pc coldef parse app ur fls fcd err cu cerr c pre post payload hpre hfail

/-- what that one iteration is, in each of the three outcomes of `_change_user` -/
theorem code_change_user_exchange (E : Mimic.Py.Env S) (cp : S → Nat) (pc : Nat → Mimic.Py.Bytes) (coldef : Nat → Nat → Mimic.Py.Bytes)
    (parse : Connection S → Mimic.Py.Bytes → Option (ComStmtExecute S)) (app : S → Option (ResultSet S))
    (ur : S → Bool) (fls : Mimic.Extracted.ParsersCode.ComFieldList S → S) (fcd : Nat → S → Mimic.Py.Bytes → Mimic.Py.Bytes)
    (err : Connection S → Mimic.Py.Bytes) (cu : Connection S → Mimic.Py.Bytes → CUOut S) (cerr : Connection S → Mimic.Py.Bytes)
    (c : Connection S) (payload : Mimic.Py.Bytes) :
    let c1 : Connection S := { c with _executing := true }
    match cu c1 payload with
    | .returned s => stepCU E cp pc coldef parse app ur fls fcd err cu cerr c (17 :: payload)
        = ({ s with _executing := false, out := s.out ++ [Ev.session_reset, Ev.reset_seq] }, true)
    | .authfail s => stepCU E cp pc coldef parse app ur fls fcd err cu cerr c (17 :: payload)
        = ({ s with _executing := false, out := s.out ++ [Ev.reset_seq] }, false)
    | .raised s => stepCU E cp pc coldef parse app ur fls fcd err cu cerr c (17 :: payload)
        = ({ s with _executing := false, out := s.out ++ [Ev.write (cerr s) true, Ev.reset_seq] }, false) :=
  change_user_exchange E cp pc coldef parse app ur fls fcd err cu cerr c payload

/-- non-vacuity: a `_change_user` that refuses everything; the conversation PING, CHANGE_USER, PING ends at the second packet -/
example : (loopCU (S := Unit) ⟨fun _ => none, fun _ _ => some (), fun _ _ => none, (), fun _ => true, fun _ => (), fun _ _ => false⟩ (fun _ => 0) (fun _ => []) (fun _ _ => []) (fun _ _ => none) (fun _ => none)
      (fun _ => false) (fun _ => ()) (fun _ _ _ => []) (fun _ => [0xff]) (fun c _ => .authfail c) (fun _ => [0xff])
      ⟨0, 0, [], [], ⟨some maxPreparedStmtId, 0⟩, 45, 45, false⟩ [[14], [17], [14]]).2 = true := by decide

end code

end MimicProps.C01
