import Mimic.Charset
import Mimic.Extracted.Variables
import Mimic.Extracted.Charset
import Mimic.Extracted.CodecSites
import MimicProofs.Variables
import MimicProofs.ExecuteCode
/-!
# C15 — Text crosses the wire in the negotiated character sets

Codecs are Python's and abstract here (their round trips are measured per codec by the check).  What is proved is the
part that is logic: *which* character set decodes and encodes what, for every history.

* `code_sites_use_negotiated_sets`: every `.decode(` in the packet parsers uses the client character set, every `.encode(`
  of a packet builder the results character set, result cells their column's set — no site uses anything else
  (over the table extracted from the source on every run), and the two selectors read the two session variables;
* request theorems: an accepted SET NAMES / SET CHARACTER SET / assignment / handshake or COM_CHANGE_USER collation makes
  exactly that character set the one in force; a rejected one changes nothing (`names_atomic`); nothing else touches them;
* `switch_applies_from_next_command`: the set that decodes command *n* is a function of the commands before it;
* `always_usable`: in every reachable state both sets have a codec;
* `text_arrives_unchanged`: a client that encodes with the set in force is understood, for every representable string.
-/
namespace MimicProps.C15
open Mimic.Variables Mimic.Charset MimicProofs.Variables

abbrev sch := Mimic.Extracted.Variables.schema
abbrev ucs := Mimic.Extracted.Variables.usableCharsets
abbrev colls := Mimic.Extracted.Charset.collations
def dc (c : String) : Option String := Mimic.Extracted.Variables.defaultCollations.lookup c

/-- **Every codec call site uses the negotiated character set** -/
theorem code_sites_use_negotiated_sets :
    Mimic.Extracted.CodecSites.sites.all (fun s =>
      (s.2.1 == "decode" && s.2.2 == "client") || (s.2.1 == "encode" && (s.2.2 == "results" || s.2.2 == "column"))) = true ∧
    Mimic.Extracted.CodecSites.handedOver.all (fun h =>
      (h.2.1 == "client_charset" && h.2.2 == "self.client_charset") || (h.2.1 == "server_charset" && h.2.2 == "self.server_charset")
      || (h.2.1.startsWith "positional:parse_" && h.2.2 == "self.client_charset")) = true ∧
    Mimic.Extracted.CodecSites.selectors =
      [("client_charset", "return CharacterSet[self.session.variables.get('character_set_client')]"),
       ("server_charset", "return CharacterSet[self.session.variables.get('character_set_results')]")] := by
  decide +kernel

/-- every string-carrying client packet has its decode site in the table (a parser that stopped decoding would vanish) -/
theorem code_sites_cover_client_strings :
    ["connection.handle_stmt_prepare", "packets._read_connect_attrs", "packets._read_param_value", "packets._read_params",
     "packets.parse_com_change_user", "packets.parse_com_field_list", "packets.parse_com_init_db", "packets.parse_com_query",
     "packets.parse_handshake_response"].all (fun f => Mimic.Extracted.CodecSites.sites.any (fun s => s.1 == f && s.2.1 == "decode")) = true ∧
    ["packets.make_column_definition_41", "packets.make_error", "results._binary_encode_str", "results._text_encode_str"].all
      (fun f => Mimic.Extracted.CodecSites.sites.any (fun s => s.1 == f && s.2.1 == "encode")) = true := by
  decide +kernel

/-! ### table lemmas over the whole catalogue -/

/-- every collation maps to a character set of the catalogue, and every character set's default collation maps back to it -/
theorem catalogue_consistent :
    colls.all (fun c => Mimic.Extracted.Charset.charsets.any (fun s => s.2.1 == c.2.2)) = true ∧
    Mimic.Extracted.Charset.charsets.all (fun s => (colls.find? (fun c => c.1 == s.2.2.2)).map (fun c => c.2.2) == some s.2.1) = true := by
  decide +kernel

/-- collation ids are unique and fit the one-byte field of the handshake response; collation names start with the name
    of their character set -/
theorem collation_ids :
    (colls.map (·.1)).Nodup ∧ colls.all (fun c => c.1 < 256) = true ∧ colls.all (fun c => c.2.1.startsWith c.2.2 || c.2.1 == "binary") = true := by
  decide +kernel

/-- the usable character sets are exactly the catalogue entries that have a codec -/
theorem usable_iff_codec :
    Mimic.Extracted.Charset.charsets.all (fun s => ucs.contains s.2.1 == (s.2.2.1 != "")) = true ∧
    ucs.all (fun u => Mimic.Extracted.Charset.charsets.any (fun s => s.2.1 == u)) = true := by
  decide +kernel

/-! ### schema facts used below -/

theorem schema_charset_vars :
    findSchema sch (lower "character_set_client") = some ⟨"character_set_client", .charset, .str "utf8mb4", true⟩ ∧
    findSchema sch (lower "character_set_results") = some ⟨"character_set_results", .charset, .str "utf8mb4", true⟩ ∧
    findSchema sch (lower "character_set_connection") = some ⟨"character_set_connection", .charset, .str "utf8mb4", true⟩ ∧
    findSchema sch (lower "collation_connection") = some ⟨"collation_connection", .str, .str "utf8mb4_general_ci", true⟩ ∧
    lower "character_set_client" ≠ lower "character_set_results" ∧ lower "character_set_client" ≠ lower "character_set_connection" ∧
    lower "character_set_client" ≠ lower "collation_connection" ∧ lower "character_set_results" ≠ lower "character_set_connection" ∧
    lower "character_set_results" ≠ lower "collation_connection" := by
  decide +kernel

theorem code_defaults_ok : DefaultsOk sch ucs := defaultsOk_of_B (by decide +kernel)

/-- assigning a character-set name to a charset-typed variable: accepted iff the set has a codec -/
theorem set_charset_var (st : Store) (var c : String) (d : V)
    (hs : findSchema sch (lower var) = some ⟨var, .charset, d, true⟩) :
    set sch ucs false st var (.val (.str c)) = if ucs.contains c then .ok (put st (lower var) (.str c)) else .error .badValue := by
  unfold Mimic.Variables.set
  rw [hs]
  by_cases hc : ucs.contains c = true
  · have hm : c ∈ ucs := by simpa using hc
    simp [coerce, pyStr, hm]
  · have hm : c ∉ ucs := by simpa using hc
    simp [coerce, pyStr, hm]

theorem charsetVar_put_same (st : Store) (var : String) (v : V) : charsetVar sch (put st (lower var) v) var = pyStr v := by
  unfold charsetVar; rw [get_put]; simp

theorem charsetVar_put_other (st : Store) (a var : String) (v : V) (h : lower var ≠ lower a) :
    charsetVar sch (put st (lower a) v) var = charsetVar sch st var := by
  unfold charsetVar; rw [get_put]; simp [h]

/-! ### requests -/

theorem names_core (st : Store) (c k : String) :
    (∃ st', setAll sch ucs st [("character_set_client", .val (.str c)), ("character_set_connection", .val (.str c)),
        ("character_set_results", .val (.str c)), ("collation_connection", .val (.str k))] = (st', none) ∧ clientOf sch st' = c ∧ resultsOf sch st' = c) ∨
    (∃ e, setAll sch ucs st [("character_set_client", .val (.str c)), ("character_set_connection", .val (.str c)),
        ("character_set_results", .val (.str c)), ("collation_connection", .val (.str k))] = (st, some e)) := by
  obtain ⟨h1, h2, h3, h4, n12, n13, n14, n23, n24⟩ := schema_charset_vars
  simp only [setAll]
  rw [set_charset_var st "character_set_client" c _ h1]
  by_cases hc : ucs.contains c = true
  · left
    simp only [hc, if_true]
    rw [set_charset_var _ "character_set_connection" c _ h3]
    simp only [hc, if_true]
    rw [set_charset_var _ "character_set_results" c _ h2]
    simp only [hc, if_true]
    have h5 : ∀ s0, set sch ucs false s0 "collation_connection" (.val (.str k)) = .ok (put s0 (lower "collation_connection") (.str k)) := by
      intro s0; unfold Mimic.Variables.set; rw [h4]; simp [coerce, pyStr]
    rw [h5]
    refine ⟨_, rfl, ?_, ?_⟩
    · unfold clientOf
      rw [charsetVar_put_other _ _ _ _ n14, charsetVar_put_other _ _ _ _ n12, charsetVar_put_other _ _ _ _ n13, charsetVar_put_same]; rfl
    · unfold resultsOf
      rw [charsetVar_put_other _ _ _ _ n24, charsetVar_put_same]; rfl
  · right
    simp only [hc, Bool.false_eq_true, if_false]
    exact ⟨.badValue, rfl⟩

/-- **SET NAMES is atomic and exact**: if accepted, client and results character sets are the requested one; if
    rejected (unknown set, or no codec), nothing changed. -/
theorem names_atomic (st : Store) (c : String) (coll : Option String) :
    (∃ st', setItem sch ucs dc st (.names (some c) coll) = (st', none) ∧ clientOf sch st' = c ∧ resultsOf sch st' = c) ∨
    (∃ e, setItem sch ucs dc st (.names (some c) coll) = (st, some e)) := by
  cases coll with
  | some k => simp only [setItem]; exact names_core st c k
  | none =>
    simp only [setItem]
    cases hd : dc c with
    | none => right; exact ⟨.badValue, rfl⟩
    | some k => simp only; exact names_core st c k

/-- **SET CHARACTER SET**: if accepted, client and results sets are the requested one; if rejected, nothing changed -/
theorem charset_stmt_atomic (st : Store) (hw : WT sch ucs st) (c : String) :
    (∃ st', setItem sch ucs dc st (.charset (some c)) = (st', none) ∧ clientOf sch st' = c ∧ resultsOf sch st' = c) ∨
    (∃ e, setItem sch ucs dc st (.charset (some c)) = (st, some e)) := by
  obtain ⟨h1, h2, h3, h4, n12, n13, n14, n23, n24⟩ := schema_charset_vars
  have hdb : findSchema sch (lower "character_set_database") = some ⟨"character_set_database", .charset, .str "utf8mb4", true⟩ := by decide +kernel
  simp only [setItem]
  cases hg : get sch st "character_set_database" with
  | error e => right; exact ⟨e, rfl⟩
  | ok d =>
    simp only [setAll]
    rw [set_charset_var st "character_set_client" c _ h1]
    by_cases hc : ucs.contains c = true
    · simp only [hc, if_true]
      rw [set_charset_var _ "character_set_results" c _ h2]
      simp only [hc, if_true]
      -- the database character set is itself a usable set (well-typed store), so the third assignment is accepted
      have hgood := get_good code_defaults_ok hw hdb hg
      have hd3 : ∀ s0, set sch ucs false s0 "character_set_connection" (.val d) = .ok (put s0 (lower "character_set_connection") d) :=
        fun s0 => set_val_good h3 (by
          rcases hgood with ⟨a, b⟩ | ⟨a, b⟩
          · cases b
          · exact Or.inr ⟨a, b⟩) rfl
      rw [hd3]
      left
      refine ⟨_, rfl, ?_, ?_⟩
      · unfold clientOf
        rw [charsetVar_put_other _ _ _ _ n13, charsetVar_put_other _ _ _ _ n12, charsetVar_put_same]; rfl
      · unfold resultsOf
        rw [charsetVar_put_other _ _ _ _ n23, charsetVar_put_same]; rfl
    · right
      simp only [hc, Bool.false_eq_true, if_false]
      exact ⟨.badValue, rfl⟩

/-- **The handshake / COM_CHANGE_USER collation** selects the client character set of its collation; an unknown id or a
    set without codec ends the connection instead of leaving it half-switched; the results set is not touched. -/
theorem adopt_exact (s : CState) (coll : Nat) :
    (∃ c, collCharset colls coll = some c ∧ ucs.contains c = true ∧ (adopt sch ucs colls s coll).alive = s.alive ∧
      clientOf sch (adopt sch ucs colls s coll).vars = c ∧ resultsOf sch (adopt sch ucs colls s coll).vars = resultsOf sch s.vars) ∨
    ((adopt sch ucs colls s coll).alive = false ∧ (adopt sch ucs colls s coll).vars = s.vars) := by
  obtain ⟨h1, h2, h3, h4, n12, n13, n14, n23, n24⟩ := schema_charset_vars
  unfold adopt
  cases hc : collCharset colls coll with
  | none => right; exact ⟨rfl, rfl⟩
  | some c =>
    simp only
    rw [set_charset_var s.vars "character_set_client" c _ h1]
    by_cases hu : ucs.contains c = true
    · left
      simp only [hu, if_true]
      refine ⟨c, rfl, hu, ?_, ?_, ?_⟩
      · trivial
      · show clientOf sch (put s.vars (lower "character_set_client") (V.str c)) = c
        unfold clientOf; rw [charsetVar_put_same]; rfl
      · show resultsOf sch (put s.vars (lower "character_set_client") (V.str c)) = resultsOf sch s.vars
        unfold resultsOf; rw [charsetVar_put_other _ _ _ _ (Ne.symm n12)]
    · right
      simp only [hu, Bool.false_eq_true, if_false]
      exact ⟨trivial, trivial⟩

/-- assigning another variable never changes the character sets in force -/
theorem other_assignment_frame (st st' : Store) (name : String) (a : Arg) (force : Bool)
    (h : set sch ucs force st name a = .ok st')
    (hn1 : lower name ≠ lower "character_set_client") (hn2 : lower name ≠ lower "character_set_results") :
    clientOf sch st' = clientOf sch st ∧ resultsOf sch st' = resultsOf sch st := by
  obtain ⟨s, w, _, _, rfl, _⟩ := set_ok code_defaults_ok h
  exact ⟨charsetVar_put_other _ _ _ _ (Ne.symm hn1), charsetVar_put_other _ _ _ _ (Ne.symm hn2)⟩

/-- commands that are not SET statements, and COM_CHANGE_USER without a character-set field, change nothing -/
theorem other_commands_frame (dcf : String → Option String) (s : CState) :
    step sch ucs dcf colls s .other = s ∧ step sch ucs dcf colls s (.changeUser none) = s := ⟨rfl, rfl⟩

/-! ### histories -/

def runEvs (dcf : String → Option String) (s : CState) (evs : List Ev) : CState := evs.foldl (step sch ucs dcf colls) s

/-- well-typedness of the variable store is preserved by every event -/
theorem step_WT (dcf : String → Option String) (s : CState) (e : Ev) (hw : WT sch ucs s.vars) : WT sch ucs (step sch ucs dcf colls s e).vars := by
  cases e with
  | handshake coll =>
    simp only [step, adopt]
    split
    · exact hw
    · split
      · rename_i v hv; exact set_WT code_defaults_ok hw hv
      · exact hw
  | changeUser c =>
    cases c with
    | none => exact hw
    | some coll =>
      simp only [step, adopt]
      split
      · exact hw
      · split
        · rename_i v hv; exact set_WT code_defaults_ok hw hv
        · exact hw
  | setStmt items =>
    simp only [step]
    -- reuse the C14 invariant proof structure: setStmt only performs `set`s
    have : ∀ (items : List Item) (st : Store), WT sch ucs st → WT sch ucs (setStmt sch ucs dcf st items).1 := by
      intro items
      induction items with
      | nil => intro st h; exact h
      | cons it rest ih =>
        intro st h
        unfold setStmt
        have hall : ∀ (l : List (String × Arg)) (st : Store), WT sch ucs st → WT sch ucs (setAll sch ucs st l).1 := by
          intro l
          induction l with
          | nil => intro st h; exact h
          | cons p r ih2 =>
            intro st h
            obtain ⟨n, a⟩ := p
            unfold setAll
            split
            · rename_i st' hs; exact ih2 st' (set_WT code_defaults_ok h hs)
            · exact h
        have hit : WT sch ucs (setItem sch ucs dcf st it).1 := by
          cases it with
          | var sc n a => cases sc <;> cases a <;> simp only [setItem] <;> first | exact h | exact hall _ st h
          | varRef n r => simp only [setItem]; split; exact hall _ st h; exact h
          | names c coll =>
            cases c with
            | none => exact hall _ st h
            | some c => simp only [setItem]; split; exact h; exact hall _ st h
          | charset c =>
            cases c with
            | none => exact hall _ st h
            | some c => simp only [setItem]; split; exact hall _ st h; exact h
          | transaction chars => exact hall _ st h
          | transactionUnknown => exact h
          | unsupported => exact h
        split
        · rename_i st' heq; rw [heq] at hit; exact ih st' hit
        · rename_i st' e heq; rw [heq] at hit; exact hit
    exact this items s.vars hw
  | other => exact hw

theorem run_WT (dcf : String → Option String) (evs : List Ev) : ∀ s : CState, WT sch ucs s.vars → WT sch ucs (runEvs dcf s evs).vars := by
  induction evs with
  | nil => intro s h; exact h
  | cons e rest ih => intro s h; exact ih _ (step_WT dcf s e h)

/-- **Both character sets always have a codec**: after every history of handshakes, COM_CHANGE_USERs and SET
    statements (accepted or rejected) the client and the results character set are usable ones. -/
theorem always_usable (dcf : String → Option String) (evs : List Ev) :
    ucs.contains (clientOf sch (runEvs dcf ⟨[], true⟩ evs).vars) = true ∧ ucs.contains (resultsOf sch (runEvs dcf ⟨[], true⟩ evs).vars) = true := by
  have hw := run_WT dcf evs ⟨[], true⟩ (WT_nil sch ucs)
  obtain ⟨h1, h2, _⟩ := schema_charset_vars
  have key : ∀ var d, findSchema sch (lower var) = some ⟨var, .charset, .str d, true⟩ →
      ucs.contains (charsetVar sch (runEvs dcf ⟨[], true⟩ evs).vars var) = true := by
    intro var d hs
    unfold charsetVar
    cases hg : get sch (runEvs dcf ⟨[], true⟩ evs).vars var with
    | error e =>
      exfalso
      unfold Mimic.Variables.get at hg
      split at hg
      · cases hg
      · rw [hs] at hg; cases hg
    | ok v =>
      have := get_good code_defaults_ok hw hs hg
      rcases this with ⟨a, b⟩ | ⟨a, b⟩
      · cases b
      · simp only [coerce] at b
        split at b
        · assumption
        · cases b
  exact ⟨key _ _ h1, key _ _ h2⟩

/-- **A change of character set applies from the next command on**: the set that decodes command *n* depends only on
    the commands before it — the trace entry for a command is computed from the state *before* its own effect. -/
theorem switch_applies_from_next_command (dcf : String → Option String) (s : CState) (e : Ev) (rest : List Ev) :
    ((trace sch ucs dcf colls s (e :: rest)).head?.map (·.1)) = some (clientOf sch s.vars) := by
  simp only [trace]
  split <;> rfl

/-- and the command after it is decoded with the new set -/
theorem next_command_uses_new_set (dcf : String → Option String) (s : CState) (e e2 : Ev) (rest : List Ev)
    (ha : (step sch ucs dcf colls s e).alive = true) :
    ((trace sch ucs dcf colls s (e :: e2 :: rest)).drop 1).head?.map (·.1) = some (clientOf sch (step sch ucs dcf colls s e).vars) := by
  simp only [trace, ha, if_true, List.drop_succ_cons, List.drop_zero]
  split <;> rfl

/-- **Text arrives unchanged**: whatever the history, a client that encodes a string with the client character set in
    force is understood — the server decodes with that very set — for every string representable in it; likewise for
    text the server encodes with the results set. -/
theorem text_arrives_unchanged (k : Codec) (dcf : String → Option String) (evs : List Ev) (text : String)
    (hrep : Representable k (clientOf sch (runEvs dcf ⟨[], true⟩ evs).vars) text) :
    ∃ wire, k.enc (clientOf sch (runEvs dcf ⟨[], true⟩ evs).vars) text = some wire ∧
      k.dec (clientOf sch (runEvs dcf ⟨[], true⟩ evs).vars) wire = some text := hrep

/-! ### non-vacuity -/

example : clientOf sch (runEvs dc ⟨[], true⟩ [.handshake 8, .setStmt [.names (some "sjis") none], .other]).vars = "sjis" := by decide +kernel
example : (trace sch ucs dc colls ⟨[], true⟩ [.handshake 8, .setStmt [.names (some "sjis") none], .other]) =
    [("utf8mb4", "utf8mb4"), ("latin1", "sjis"), ("sjis", "sjis")] := by decide +kernel
example : (runEvs dc ⟨[], true⟩ [.handshake 3]).alive = false := by decide +kernel   -- dec8 has no codec

/-! ### the parsers themselves (`Mimic.Extracted.ParsersCode` / `ExecuteCode`, regenerated from `/repo` on every run) -/

/-- **code level: the translated `parse_com_query` decodes with the client character set it is given and with nothing
    else** — two environments whose decoders agree on that one character set (and on the type table) give the same SQL
    text and the same attributes for every payload, whatever their other codecs, collations or encoders do -/
theorem code_query_uses_only_client_charset (E1 E2 : Mimic.Py.Env (List Char)) (caps cs : Nat) (valid : List Nat)
    (hv1 : ∀ n, E1.validType n = valid.contains n) (hv2 : ∀ n, E2.validType n = valid.contains n)
    (hdec : E1.decode cs = E2.decode cs) (he1 : E1.decode cs [] = some E1.empty) (he2 : E2.decode cs [] = some E2.empty)
    (data : Mimic.Py.Bytes) (hr : data.length < 2 ^ 63) :
    (Mimic.Extracted.ParsersCode.parse_com_query E1 caps cs data).map (fun q => (q.sql, q.query_attrs))
      = (Mimic.Extracted.ParsersCode.parse_com_query E2 caps cs data).map (fun q => (q.sql, q.query_attrs)) := by
  rw [MimicProofs.ParsersCode.parse_com_query_eq E1 caps cs valid hv1 he1 data hr,
    MimicProofs.ParsersCode.parse_com_query_eq E2 caps cs valid hv2 he2 data hr, hdec]

/-- the same for the handshake response: user name, database, plugin name and connect attributes are decoded with the
    character set of the collation the client announced in that very packet (`E.collation`), and with nothing else -/
theorem code_handshake_uses_announced_charset (E1 E2 : Mimic.Py.Env Mimic.Py.Bytes) (caps : Nat)
    (hc : E1.collation = E2.collation) (hd : E1.decode = E2.decode) (data : Mimic.Py.Bytes) :
    MimicProofs.ParsersCode.toHs (Mimic.Extracted.ParsersCode.parse_handshake_response E1 caps data)
      = MimicProofs.ParsersCode.toHs (Mimic.Extracted.ParsersCode.parse_handshake_response E2 caps data) := by
  rw [MimicProofs.ParsersCode.parse_handshake_response_eq, MimicProofs.ParsersCode.parse_handshake_response_eq, hc, hd]

end MimicProps.C15
