import MimicProofs.Control
