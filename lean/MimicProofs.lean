import MimicProofs.Control
import MimicProofs.Framing
