import MimicProofs.Control
import MimicProofs.Framing
import MimicProofs.Wire
import MimicProofs.Results
import MimicProofs.Params
import MimicProofs.Auth
import MimicProofs.Conn
import MimicProofs.Script
