import Mimic.Drv
open Mimic.Drv

partial def loop (h : IO.FS.Stream) (out : IO.FS.Stream) (st : Multi) : IO Unit := do
  let line ← h.getLine
  if line.isEmpty then return ()
  let (st', o) := handleMulti st ((line.dropEndWhile (fun c => c == '\n' || c == '\r')).toString)
  out.putStrLn o
  loop h out st'

def main : IO Unit := do
  let stdin ← IO.getStdin
  let stdout ← IO.getStdout
  loop stdin stdout {}
