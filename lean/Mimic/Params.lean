import Mimic.Wire
import Mimic.Results
/-!
L2 — prepared-statement parameters and query attributes (`packets.py`: `parse_com_query`,
`parse_com_stmt_execute`, `_interpolate_params`, `_read_params`, `_encode_param_as_sql`; `prepared.REGEX_PARAM`).

SQL text is a list of characters; the character-set codec is a parameter `dec : Bytes → Option (List Char)`.
-/
namespace Mimic.Params
open Mimic.Wire

/-! ### literals -/

/-- `_encode_param_as_sql` for strings: backslash and single quote doubled -/
def esc : List Char → List Char
  | [] => []
  | c :: cs => if c = '\\' then '\\' :: '\\' :: esc cs
               else if c = '\'' then '\'' :: '\'' :: esc cs
               else c :: esc cs

def quoted (v : List Char) : List Char := '\'' :: (esc v ++ ['\''])

inductive PVal
  | null
  | int (z : Int)
  | str (s : List Char)
  | flt (bits : Bytes)        -- float / double bit pattern; `str(float)` is opaque
deriving Repr, DecidableEq

def asciiOf (b : Bytes) : List Char := b.map (fun x => Char.ofNat x.toNat)

/-- text of a float: supplied by the environment (Python's `str(float)`), any function -/
def literal (fltText : Bytes → List Char) : PVal → List Char
  | .null => "NULL".toList
  | .int z => asciiOf (Mimic.Results.intToDec z)
  | .str s => quoted s
  | .flt b => fltText b

/-- what a backslash escape denotes in the MySQL dialect; only `\\ ↦ \` matters for the theorems -/
structure EscTable where
  un : Char → List Char
  bs : un '\\' = ['\\']

/-- lexer for the body of a single-quoted literal (after the opening quote): `''` is a quote, backslash
    escapes the next character, a lone `'` ends the literal -/
def lexBody (T : EscTable) : List Char → Option (List Char × List Char)
  | [] => none
  | [c] => if c = '\'' then some ([], []) else none
  | c :: d :: ds =>
    if c = '\'' then
      (if d = '\'' then (lexBody T ds).map (fun r => ('\'' :: r.1, r.2)) else some ([], d :: ds))
    else if c = '\\' then (lexBody T ds).map (fun r => (T.un d ++ r.1, r.2))
    else (lexBody T (d :: ds)).map (fun r => (c :: r.1, r.2))

def lexString (T : EscTable) : List Char → Option (List Char × List Char)
  | c :: cs => if c = '\'' then lexBody T cs else none
  | [] => none

/-! ### placeholders (`REGEX_PARAM`) and interpolation -/

def isQuote (c : Char) : Bool := c = '"' || c = '\'' || c = '`'

def quoteCount (s : List Char) : Nat := (s.filter isQuote).length

/-- `REGEX_PARAM` matches a `?` iff the number of quote characters after it is even; `par` is the number of
    quote characters that follow the string under consideration (context) -/
def isPh (par : Nat) (c : Char) (after : List Char) : Bool := c = '?' && (quoteCount after + par) % 2 = 0

/-- number of placeholders (`len(REGEX_PARAM.findall(sql))`) -/
def phCount (par : Nat) : List Char → Nat
  | [] => 0
  | c :: cs => (if isPh par c cs then 1 else 0) + phCount par cs

/-- single-pass substitution `REGEX_PARAM.sub(lambda m: next(values), sql)`; `none`: values ran out -/
def interp (par : Nat) : List Char → List (List Char) → Option (List Char × List (List Char))
  | [], vals => some ([], vals)
  | c :: cs, vals =>
    if isPh par c cs then
      match vals with
      | [] => none
      | v :: vs => (interp par cs vs).map (fun r => (v ++ r.1, r.2))
    else (interp par cs vals).map (fun r => (c :: r.1, r.2))

/-! ### parameter blocks -/

structure PType where
  code : Nat
  unsigned : Bool
  name : Bytes
deriving Repr, DecidableEq

def strCodes : List Nat := [15, 253, 254, 252, 249, 250, 251]

/-- `_read_param_type` (+ the name when query attributes were negotiated) -/
def readTypes (validCodes : List Nat) (qa : Bool) : Nat → Bytes → Option (List PType × Bytes)
  | 0, b => some ([], b)
  | n + 1, t :: f :: rest =>
    if validCodes.contains t.toNat then
      if qa then
        match decStr rest with
        | some (nm, r) => (readTypes validCodes qa n r).map (fun x => ({ code := t.toNat, unsigned := f.toNat ≥ 128, name := nm } :: x.1, x.2))
        | none => none
      else (readTypes validCodes qa n rest).map (fun x => ({ code := t.toNat, unsigned := f.toNat ≥ 128, name := [] } :: x.1, x.2))
    else none
  | _ + 1, _ => none

def readInt (k : Nat) (unsigned : Bool) (b : Bytes) : Option (PVal × Bytes) :=
  if unsigned then (readUInt k b).map (fun r => (.int r.1, r.2)) else (readSInt k b).map (fun r => (.int r.1, r.2))

/-- `_read_param_value` -/
def readValue (dec : Bytes → Option (List Char)) (t : PType) (b : Bytes) : Option (PVal × Bytes) :=
  if strCodes.contains t.code then
    match decStr b with
    | some (s, r) => (dec s).map (fun cs => (.str cs, r))
    | none => none
  else if t.code = 1 then readInt 1 t.unsigned b
  else if t.code = 0xF4 then readInt 1 true b
  else if t.code = 2 ∨ t.code = 13 then readInt 2 t.unsigned b
  else if t.code = 3 ∨ t.code = 9 then readInt 4 t.unsigned b
  else if t.code = 8 then readInt 8 t.unsigned b
  else if t.code = 4 then (takeN 4 b).map (fun r => (.flt r.1, r.2))
  else if t.code = 5 then (takeN 8 b).map (fun r => (.flt r.1, r.2))
  else if t.code = 6 then some (.null, b)
  else none

/-- values in declaration order; NULL-flagged ones and ones delivered as long data consume no bytes -/
def readValues (dec : Bytes → Option (List Char)) (buffers : Nat → Option Bytes) :
    List PType → List Bool → Nat → Bytes → Option (List PVal × Bytes)
  | [], _, _, b => some ([], b)
  | t :: ts, nulls, i, b =>
    if nulls.headD false then (readValues dec buffers ts nulls.tail (i + 1) b).map (fun r => (.null :: r.1, r.2))
    else match buffers i with
      | some data => match dec data with
        | some cs => (readValues dec buffers ts nulls.tail (i + 1) b).map (fun r => (.str cs :: r.1, r.2))
        | none => none
      | none => match readValue dec t b with
        | some (v, r) => (readValues dec buffers ts nulls.tail (i + 1) r).map (fun x => (v :: x.1, x.2))
        | none => none

/-- `_read_params`: returns (name, value) pairs -/
def readParams (validCodes : List Nat) (dec : Bytes → Option (List Char)) (qa : Bool) (count : Nat)
    (buffers : Nat → Option Bytes) (b : Bytes) : Option (List (List Char × PVal) × Bytes) :=
  if count = 0 then some ([], b) else
  match takeN ((count + 7) / 8) b with
  | none => none
  | some (bm, b1) =>
    match b1 with
    | [] => none
    | flag :: b2 =>
      if flag = 0 then none else
      match readTypes validCodes qa count b2 with
      | none => none
      | some (types, b3) =>
        match Mimic.Results.optAll (types.map (fun t => dec t.name)) with
        | none => none
        | some names =>
          match readValues dec buffers types ((List.range count).map (Mimic.Results.isFlipped 0 bm)) 0 b3 with
          | none => none
          | some (vals, b4) => some (names.zip vals, b4)

/-- Python dict semantics of `{k: v for k, v in pairs}`: the first occurrence of a key fixes its position, a later
    duplicate replaces the value -/
def dictInsert {α : Type} (d : List (List Char × α)) (kv : List Char × α) : List (List Char × α) :=
  if d.any (fun x => x.1 = kv.1) then d.map (fun x => if x.1 = kv.1 then (x.1, kv.2) else x) else d ++ [kv]

def dictOf {α : Type} (ps : List (List Char × α)) : List (List Char × α) := ps.foldl dictInsert []

/-- `parse_com_query` -/
def parseQuery (validCodes : List Nat) (dec : Bytes → Option (List Char)) (qa : Bool) (payload : Bytes) :
    Option (List Char × List (List Char × PVal)) :=
  if qa then
    match decLen payload with
    | none => none
    | some (count, b1) =>
      match decLen b1 with
      | none => none
      | some (_, b2) =>
        match readParams validCodes dec true count (fun _ => none) b2 with
        | none => none
        | some (ps, rest) => (dec rest).map (fun sql => (sql, dictOf ps))
  else (dec payload).map (fun sql => (sql, []))

structure Stmt where
  sql : List Char
  numParams : Nat
  buffers : Nat → Option Bytes

/-- `parse_com_stmt_execute` after the statement lookup: flags, iteration count, `_interpolate_params` -/
def parseExecute (validCodes : List Nat) (dec : Bytes → Option (List Char)) (fltText : Bytes → List Char)
    (qa : Bool) (stmt : Stmt) (afterId : Bytes) : Option (List Char × List (List Char × PVal) × Bool) :=
  match afterId with
  | [] => none
  | flags :: b0 =>
    match takeN 4 b0 with
    | none => none
    | some (_, b1) =>
      -- `parameter_count` is transmitted iff the capability was negotiated and there is something to count
      match (if (stmt.numParams > 0 ∨ (qa = true ∧ flags.toNat / 8 % 2 = 1)) ∧ qa = true then decLen b1
             else some (stmt.numParams, b1)) with
      | none => none
      | some (count, b2) =>
        if count = 0 then some (stmt.sql, [], decide (flags.toNat % 2 = 1)) else
        match readParams validCodes dec qa count stmt.buffers b2 with
        | none => none
        | some (ps, _) =>
          match interp 0 stmt.sql ((ps.take stmt.numParams).map (fun kv => literal fltText kv.2)) with
          | none => none
          | some (sql, _) => some (sql, dictOf (ps.drop stmt.numParams), decide (flags.toNat % 2 = 1))

end Mimic.Params
