def hello := "world"
