import Mimic.Wire
/-!
L3 — authentication (`auth.py` plugins, `utils.xor`, `Connection.authenticate`).

`H` is the hash (SHA-1 in the code): an arbitrary function here, with `∀ x, (H x).length = 20` as a hypothesis
of the theorems that need it.  Fresh nonces come from an oracle stream of draws (`random.SystemRandom().choice`).
-/
namespace Mimic.Auth
open Mimic.Wire

/-- `utils.xor`: both operands cut to the shorter length -/
def xorb (a b : Bytes) : Bytes := List.zipWith (· ^^^ ·) a b

/-- `bytes.fromhex` on the characters of the stored `auth_string`: pairs of hex digits (either case); ASCII
    whitespace is skipped between pairs; anything else raises (`none`) -/
def hexVal (c : Char) : Option Nat :=
  if '0' ≤ c ∧ c ≤ '9' then some (c.toNat - 48)
  else if 'a' ≤ c ∧ c ≤ 'f' then some (c.toNat - 87)
  else if 'A' ≤ c ∧ c ≤ 'F' then some (c.toNat - 55)
  else none

def isWs (c : Char) : Bool := c = ' ' || c = '\t' || c = '\n' || c = '\r' || c = '\x0b' || c = '\x0c'

def fromhex : List Char → Option Bytes
  | [] => some []
  | [c] => if isWs c then some [] else none
  | a :: b :: rest =>
    if isWs a then fromhex (b :: rest)
    else match hexVal a, hexVal b with
      | some x, some y => (fromhex rest).map (UInt8.ofNat (16 * x + y) :: ·)
      | _, _ => none

structure User where
  name : String
  auth : Option (List Char)       -- `auth_string` (hex of SHA1(SHA1(password)))
  old : Option (List Char)        -- `old_auth_string`
  plugin : Option String          -- `auth_plugin`
deriving Repr

section
variable (H : Bytes → Bytes)

/-- `verify_scramble`: any exception (malformed hex) means "no" -/
def verifyScramble (stored : Option (List Char)) (scr nonce : Bytes) : Bool :=
  match fromhex (stored.getD []) with
  | none => false
  | some s => H (xorb scr (H (nonce ++ s))) == s

/-- `password_matches` -/
def passwordMatches (u : User) (scr nonce : Bytes) : Bool :=
  (scr.isEmpty && (u.auth.getD []).isEmpty) || verifyScramble H u.auth scr nonce || verifyScramble H u.old scr nonce

/-- the client side: SHA1(pw) XOR SHA1(nonce ++ SHA1(SHA1(pw))) -/
def scramble (pw nonce : Bytes) : Bytes := xorb (H pw) (H (nonce ++ H (H pw)))
end

/-- `bytes.rstrip(b"\x00")` -/
def rstrip0 (b : Bytes) : Bytes := (b.reverse.dropWhile (· = 0)).reverse

/-- `utils.nonce(n)`: `n` draws from the alphabet -/
def nonceOf (alphabet : Bytes) (draws : List Nat) : Bytes := draws.map (fun d => alphabet.getD (d % alphabet.length) 0)

/-! ### plugins as step machines -/

inductive Decision
  | success (name : String)
  | forbidden
  | more (data : Bytes)
  | raised                          -- the plugin raised an exception
deriving Repr, DecidableEq

inductive Kind
  | native
  | clear (accept : List (String × Bytes))     -- `check(username, password)` accepts exactly these pairs
  | nologin
  | custom2                                      -- a two-round plugin used to exercise the AuthMoreData loop
  | trust                                        -- accepts whoever answers (client plugin name `None`)
deriving Repr

structure Plugin where
  name : String
  clientName : Option String
  kind : Kind
deriving Repr

structure Info where
  username : String
  data : Bytes
  user : User
  clientPlugin : Option String
  hsData : Option Bytes
  hsPlugin : String

/-- suspended generator of a started plugin -/
inductive PState
  | nativeWait (nonce : Bytes)
  | clearWait
  | nologinWait
  | trustWait
  | custom (round : Nat)
  | done
deriving Repr, DecidableEq

def FILLER : Bytes := List.replicate 20 48 ++ [0]

def clearDecide (accept : List (String × Bytes)) (info : Info) : Decision :=
  -- password = read_str_null(data); the accept table is keyed by the raw bytes (utf8 decoding is the harness's)
  if accept.any (fun up => up.1 == info.username && up.2 == (readNul info.data).1) then .success info.username
  else .forbidden

/-- `plugin.start(auth_info)`: run the generator to its first yield.  `draws` = the next 20 random choices. -/
def start (H : Bytes → Bytes) (alphabet : Bytes) (p : Plugin) (info : Option Info) (draws : List Nat) :
    Decision × PState × Bool :=      -- Bool: were the draws consumed?
  match p.kind with
  | .native =>
    match info with
    | some i =>
      if i.hsPlugin == p.name && !(i.hsData.getD []).isEmpty then
        ((if passwordMatches H i.user i.data (rstrip0 (i.hsData.getD [])) then .success i.user.name else .forbidden), .done, false)
      else (.more (nonceOf alphabet draws ++ [0]), .nativeWait (nonceOf alphabet draws), true)
    | none => (.more (nonceOf alphabet draws ++ [0]), .nativeWait (nonceOf alphabet draws), true)
  | .clear acc =>
    match info with
    | some i => (clearDecide acc i, .done, false)
    | none => (.more FILLER, .clearWait, false)
  | .nologin =>
    match info with
    | some _ => (.forbidden, .done, false)
    | none => (.more FILLER, .nologinWait, false)
  | .trust =>
    match info with
    | some i => (.success i.username, .done, false)
    | none => (.more FILLER, .trustWait, false)
  | .custom2 => (.more [114, 111, 117, 110, 100, 49, 95, 95, 95, 95, 95, 95, 95, 95, 95, 95], .custom 1, false)

/-- `auth_state.asend(auth_info)` -/
def send (H : Bytes → Bytes) (p : Plugin) (st : PState) (i : Info) : Decision × PState :=
  match st, p.kind with
  | .nativeWait nonce, _ => ((if passwordMatches H i.user i.data nonce then .success i.user.name else .forbidden), .done)
  | .clearWait, .clear acc => (clearDecide acc i, .done)
  | .nologinWait, _ => (.forbidden, .done)
  | .trustWait, _ => (.success i.username, .done)
  | .custom 1, _ => if i.data = [97] then (.more [114, 111, 117, 110, 100, 50, 95, 95, 95, 95, 95, 95, 95, 95, 95, 95], .custom 2) else (.forbidden, .done)
  | .custom 2, _ => if i.data = [98] then (.success i.username, .done) else (.forbidden, .done)
  | _, _ => (.raised, .done)

/-! ### `Connection.authenticate` -/

inductive AOut
  | switchReq (plugin : String) (data : Bytes)
  | more (data : Bytes)
  | ok
  | errUnknownUser
  | errDenied
deriving Repr, DecidableEq

inductive ARes
  | authenticated (name : String)
  | failed                 -- ERR sent, AuthenticationFailed raised: the connection must end
  | raisedExc              -- an exception escaped (plugin raised / malformed)
  | waiting                -- blocked reading the client's next packet
deriving Repr, DecidableEq

structure Env where
  plugins : List Plugin                       -- `get_plugins()`; the head is the default
  users : String → Option User

def Env.plugin (e : Env) (name : String) : Option Plugin := e.plugins.find? (fun p => p.name == name)

/-- the `while not isinstance(decision, (Success, Forbidden))` loop -/
def moreLoop (H : Bytes → Bytes) (p : Plugin) (info : Info) :
    Nat → Decision → PState → List Bytes → List AOut × ARes
  | 0, _, _, _ => ([], .raisedExc)
  | fuel + 1, d, st, replies =>
    match d with
    | .success n => ([.ok], .authenticated n)
    | .forbidden => ([.errDenied], .failed)
    | .raised => ([], .raisedExc)
    | .more data =>
      match replies with
      | [] => ([.more data], .waiting)
      | r :: rs =>
        let x := send H p st { info with data := r }
        let t := moreLoop H p info fuel x.1 x.2 rs
        (.more data :: t.1, t.2)

/-- after an auth-switch request: read the client's answer, feed it to the plugin, continue with the loop -/
def afterSwitch (H : Bytes → Bytes) (up : Plugin) (info : Info) (cn : String) (data : Bytes) (st : PState) :
    List Bytes → List AOut × ARes
  | [] => ([.switchReq cn data], .waiting)
  | r :: rs =>
    (.switchReq cn data ::
      (moreLoop H up { info with data := r } (rs.length + 2) (send H up st { info with data := r }).1
        (send H up st { info with data := r }).2 rs).1,
     (moreLoop H up { info with data := r } (rs.length + 2) (send H up st { info with data := r }).1
        (send H up st { info with data := r }).2 rs).2)

/-- "Mismatch - switch authentication method": start the user's plugin from scratch -/
def startFresh (H : Bytes → Bytes) (alphabet : Bytes) (up : Plugin) (info : Info) (draws : List Nat)
    (replies : List Bytes) : List AOut × ARes :=
  match up.clientName, (start H alphabet up none draws).1 with
  | some cn, .more data => afterSwitch H up info cn data (start H alphabet up none draws).2.1 replies
  | _, d => moreLoop H up info (replies.length + 2) d (start H alphabet up none draws).2.1 replies

/-- "Continue with provided client plugin" -/
def startWithInfo (H : Bytes → Bytes) (alphabet : Bytes) (up : Plugin) (info : Info) (draws : List Nat)
    (replies : List Bytes) : List AOut × ARes :=
  moreLoop H up info (replies.length + 2) (start H alphabet up (some info) draws).1
    (start H alphabet up (some info) draws).2.1 replies

def mkInfo (username : String) (data : Bytes) (user : User) (clientPlugin : Option String) (hsData : Option Bytes)
    (hsPlugin : String) : Info :=
  { username := username, data := data, user := user, clientPlugin := clientPlugin, hsData := hsData, hsPlugin := hsPlugin }

def clientMatches (p : Plugin) (clientPlugin : Option String) : Bool := p.clientName.isNone || p.clientName == clientPlugin

/-- `authenticate(username, auth_response, client_plugin_name, ..., auth_state, server_plugin)`.
    `server`: the default plugin and its started generator (handshake only). `replies`: the packets the client
    sends when asked.  Returns the packets written and the outcome. -/
def authenticate (H : Bytes → Bytes) (alphabet : Bytes) (e : Env) (server : Option (Plugin × PState))
    (username : String) (authResponse : Bytes) (clientPlugin : Option String)
    (hsData : Option Bytes) (hsPlugin : String) (draws : List Nat) (replies : List Bytes) : List AOut × ARes :=
  match e.users username with
  | none => ([.errUnknownUser], .failed)
  | some user =>
    match (match e.plugin (user.plugin.getD "") with | some p => some p | none => e.plugins.head?) with
    | none => ([], .raisedExc)
    | some up =>
      match server with
      | some (sp, sst) =>
        if clientMatches sp clientPlugin && sp.name == up.name then
          -- optimistic match during handshake
          moreLoop H up (mkInfo username authResponse user clientPlugin hsData hsPlugin) (replies.length + 2)
            (send H sp sst (mkInfo username authResponse user clientPlugin hsData hsPlugin)).1
            (send H sp sst (mkInfo username authResponse user clientPlugin hsData hsPlugin)).2 replies
        else if clientMatches up clientPlugin then
          startWithInfo H alphabet up (mkInfo username authResponse user clientPlugin hsData hsPlugin) draws replies
        else
          startFresh H alphabet up (mkInfo username authResponse user clientPlugin hsData hsPlugin) draws replies
      | none =>
        if clientMatches up clientPlugin then
          startWithInfo H alphabet up (mkInfo username authResponse user clientPlugin hsData hsPlugin) draws replies
        else
          startFresh H alphabet up (mkInfo username authResponse user clientPlugin hsData hsPlugin) draws replies

end Mimic.Auth
