/-!
L6 — system variables (`Variables.get/set/list`, the SET statement family, `SET_VAR` hints, `parse_timezone`).

The schema (name, type, default, dynamic) and the list of usable character sets are extracted from the code on every
run; the functions below are parametric in them.
-/
namespace Mimic.Variables

/-- Python values that reach `Variables.set` -/
inductive V
  | int (i : Int)
  | bool (b : Bool)
  | str (s : String)
  | flt (trunc : Int) (isZero : Bool) (repr : String)   -- a float: `int(x)`, `x == 0`, `str(x)` as computed by Python
  | none
deriving DecidableEq, Repr

/-- what a SET / SET_VAR right-hand side evaluates to (`expression_to_value`) -/
inductive Arg
  | val (v : V)
  | dflt            -- the keyword DEFAULT
  | complex         -- anything else: "Complex expressions in variables not supported yet"
deriving DecidableEq, Repr

inductive Ty | int | bool | str | charset | timezone
deriving DecidableEq, Repr

structure Schema where
  name : String
  ty : Ty
  dflt : V
  dynamic : Bool
deriving Repr, DecidableEq

inductive Err | unknown | notDynamic | badValue | notSupported
deriving DecidableEq, Repr

abbrev Store := List (String × V)

def lower (s : String) : String := String.ofList (s.toList.map Char.toLower)

def findSchema (sch : List Schema) (name : String) : Option Schema := sch.find? (fun x => x.name == name)

/-! ### coercion by the variable's type -/

def isDigit (c : Char) : Bool := '0' ≤ c && c ≤ '9'

def digitsVal (cs : List Char) : Nat := cs.foldl (fun a c => a * 10 + (c.toNat - '0'.toNat)) 0

/-- `int(str)` for ASCII input without underscores: optional surrounding blanks, optional sign, at least one digit -/
def parseInt (s : String) : Option Int :=
  let cs := (s.toList.dropWhile (· == ' ')).reverse.dropWhile (· == ' ') |>.reverse
  match cs with
  | '-' :: ds => if !ds.isEmpty && ds.all isDigit then some (-(digitsVal ds : Int)) else none
  | '+' :: ds => if !ds.isEmpty && ds.all isDigit then some (digitsVal ds : Int) else none
  | ds => if !ds.isEmpty && ds.all isDigit then some (digitsVal ds : Int) else none

def natToStr (n : Nat) : String := toString n

/-- `str(v)` -/
def pyStr : V → String
  | .int i => if i < 0 then "-" ++ natToStr i.natAbs else natToStr i.natAbs
  | .bool true => "True"
  | .bool false => "False"
  | .str s => s
  | .flt _ _ r => r
  | .none => "None"

/-- `parse_timezone`: "utc" in any letter case, or a prefix `[+-]dd:dd` denoting less than 24 hours; offset in minutes -/
def tzOffset (s : String) : Option Int :=
  if lower s = "utc" then some 0 else
  match s.toList with
  | sg :: h1 :: h2 :: ':' :: m1 :: m2 :: _ =>
    if (sg == '+' || sg == '-') && isDigit h1 && isDigit h2 && isDigit m1 && isDigit m2 then
      let mins : Nat := digitsVal [h1, h2] * 60 + digitsVal [m1, m2]
      -- `datetime.timezone` refuses offsets of 24 hours or more
      if mins < 1440 then some (if sg == '-' then -(mins : Int) else (mins : Int)) else none
    else none
  | _ => none

/-- the type constructors of the schema applied to a Python value (never `None`: that is handled by `set`) -/
def coerce (charsets : List String) : Ty → V → Except Err V
  | .int, .int i => .ok (.int i)
  | .int, .bool b => .ok (.int (if b then 1 else 0))
  | .int, .flt t _ _ => .ok (.int t)
  | .int, .str s => match parseInt s with | some i => .ok (.int i) | none => .error .badValue
  | .int, .none => .error .badValue
  | .bool, .int i => .ok (.bool (i != 0))
  | .bool, .bool b => .ok (.bool b)
  | .bool, .flt _ z _ => .ok (.bool (!z))
  | .bool, .str s => .ok (.bool (s != ""))
  | .bool, .none => .ok (.bool false)
  | .str, v => .ok (.str (pyStr v))
  | .charset, v => if charsets.contains (pyStr v) then .ok (.str (pyStr v)) else .error .badValue
  | .timezone, v => if (tzOffset (pyStr v)).isSome then .ok (.str (pyStr v)) else .error .badValue

/-! ### the store -/

def get (sch : List Schema) (st : Store) (name : String) : Except Err V :=
  match st.lookup (lower name) with
  | some v => .ok v
  | none => match findSchema sch (lower name) with
    | some s => .ok s.dflt
    | none => .error .unknown

def put (st : Store) (name : String) (v : V) : Store := (name, v) :: st.filter (fun p => p.1 != name)

/-- `Variables.set(name, value, force)` with `value` a Python value (`None` → default) or DEFAULT -/
def set (sch : List Schema) (cs : List String) (force : Bool) (st : Store) (name : String) (a : Arg) : Except Err Store :=
  match findSchema sch (lower name) with
  | none => .error .unknown
  | some s =>
    if !s.dynamic && !force then .error .notDynamic else
    match a with
    | .complex => .error .notSupported
    | .dflt => .ok (put st (lower name) s.dflt)
    | .val .none => .ok (put st (lower name) s.dflt)
    | .val v => match coerce cs s.ty v with
      | .ok w => .ok (put st (lower name) w)
      | .error e => .error e

/-- `Variables.list()`: every variable of the schema, sorted by name, with its current value -/
def list (sch : List Schema) (st : Store) (sortedNames : List String) : List (String × V) :=
  sortedNames.filterMap (fun n => match get sch st n with | .ok v => some (n, v) | .error _ => none)

/-! ### SET statements -/

inductive Scope | session | global | user
deriving DecidableEq, Repr

inductive Item
  | var (scope : Scope) (name : String) (a : Arg)
  | varRef (name : String) (ref : String)                     -- `SET name = @@ref`: the current value of another variable
  | names (cs : Option String) (collate : Option String)     -- `none` = DEFAULT
  | charset (cs : Option String)
  | transaction (chars : List (String × V))                   -- already mapped to (variable, value); [] entry = unknown
  | transactionUnknown
  | unsupported
deriving Repr

/-- sequential sets; the first failure aborts (what was assigned before stays assigned) -/
def setAll (sch : List Schema) (cs : List String) (st : Store) : List (String × Arg) → Store × Option Err
  | [] => (st, none)
  | (n, a) :: rest => match set sch cs false st n a with
    | .ok st' => setAll sch cs st' rest
    | .error e => (st, some e)

def optArg : Option String → Arg
  | some s => .val (.str s)
  | none => .dflt

/-- one SET item (`_set_variable`, `_set_names`, `_set_charset`, `_set_transaction`).
    `defaultCollation cs` is `CharacterSet[cs].default_collation.name` (none: unknown character set → KeyError). -/
def setItem (sch : List Schema) (cs : List String) (defaultCollation : String → Option String) (st : Store) : Item → Store × Option Err
  | .var .user _ _ => (st, some .notSupported)
  | .var _ _ .complex => (st, some .notSupported)          -- expression_to_value raises before the scope is looked at
  | .var .global _ _ => (st, some .notSupported)
  | .var .session n a => setAll sch cs st [(n, a)]
  | .varRef n m =>
    -- `_replace_variables_middleware` puts the current value of `m` in place of `@@m` before the assignment is evaluated
    match get sch st m with
    | .ok v => setAll sch cs st [(n, .val v)]
    | .error e => (st, some e)
  | .names none _ => setAll sch cs st [("character_set_client", .dflt), ("character_set_connection", .dflt),
      ("character_set_results", .dflt), ("collation_connection", .dflt)]
  | .names (some c) coll =>
    match (match coll with | some k => some k | none => defaultCollation c) with
    | none => (st, some .badValue)
    | some k => setAll sch cs st [("character_set_client", .val (.str c)), ("character_set_connection", .val (.str c)),
        ("character_set_results", .val (.str c)), ("collation_connection", .val (.str k))]
  | .charset none => setAll sch cs st [("character_set_client", .dflt), ("character_set_results", .dflt),
      ("character_set_connection", .dflt)]
  | .charset (some c) =>
    match get sch st "character_set_database" with
    | .ok d => setAll sch cs st [("character_set_client", .val (.str c)), ("character_set_results", .val (.str c)),
        ("character_set_connection", .val d)]
    | .error e => (st, some e)
  | .transaction chars => setAll sch cs st (chars.map (fun p => (p.1, .val p.2)))
  | .transactionUnknown => (st, some .badValue)
  | .unsupported => (st, some .notSupported)

/-- a SET statement: items in order, abort at the first failure -/
def setStmt (sch : List Schema) (cs : List String) (dc : String → Option String) (st : Store) : List Item → Store × Option Err
  | [] => (st, none)
  | it :: rest => match setItem sch cs dc st it with
    | (st', none) => setStmt sch cs dc st' rest
    | (st', some e) => (st', some e)

/-- `_replace_variables_middleware` runs before `_set_middleware`: every `@@ref` on a right-hand side is replaced by the
    value the variable has when the statement starts; an unknown one fails the whole statement before anything is assigned -/
def resolveRefs (sch : List Schema) (st : Store) : List Item → Except Err (List Item)
  | [] => .ok []
  | .varRef n m :: rest =>
    match get sch st m, resolveRefs sch st rest with
    | .ok v, .ok r => .ok (.var .session n (.val v) :: r)
    | .error e, _ => .error e
    | _, .error e => .error e
  | it :: rest =>
    match resolveRefs sch st rest with
    | .ok r => .ok (it :: r)
    | .error e => .error e

/-- a SET statement as the session runs it: references resolved first, then the items in order -/
def setStmtR (sch : List Schema) (cs : List String) (dc : String → Option String) (st : Store) (items : List Item) : Store × Option Err :=
  match resolveRefs sch st items with
  | .ok its => setStmt sch cs dc st its
  | .error e => (st, some e)

/-! ### SET_VAR hints -/

/-- restore loop of the `finally` block: sets each saved value back; the first failure raises out of the loop -/
def restore (sch : List Schema) (cs : List String) (st : Store) : List (String × V) → Store × Option Err
  | [] => (st, none)
  | (n, v) :: rest => match set sch cs false st n (.val v) with
    | .ok st' => restore sch cs st' rest
    | .error e => (st, some e)

/-- `orig = {k: get(k) for k in assignments}`: an unknown name raises before anything is changed -/
def saveAll (sch : List Schema) (st : Store) : List (String × Arg) → Option (List (String × V))
  | [] => some []
  | (n, _) :: rest => match get sch st n, saveAll sch st rest with
    | .ok v, some r => some ((n, v) :: r)
    | _, _ => none

/-- `_set_var_middleware`: save, assign all, run the body (any function of the store that says whether it raised),
    restore in `finally`.  Returns the store afterwards and the error the client sees, if any: an exception raised
    by the restore loop replaces the one in flight. -/
def hinted (sch : List Schema) (cs : List String) (st : Store) (assigns : List (String × Arg)) (body : Store → Option Err) : Store × Option Err :=
  match saveAll sch st assigns with
  | none => (st, some .unknown)
  | some orig =>
    match setAll sch cs st assigns with
    | (st1, some e) => ((restore sch cs st1 orig).1, match (restore sch cs st1 orig).2 with | some e' => some e' | none => some e)
    | (st1, none) => ((restore sch cs st1 orig).1, match (restore sch cs st1 orig).2 with | some e' => some e' | none => body st1)

end Mimic.Variables
