import Mimic.Variables
/-!
L6 — which character set decodes / encodes what (`Connection.client_charset` / `server_charset`, the handshake and
COM_CHANGE_USER collation, SET NAMES / SET CHARACTER SET / assignments to the character-set variables).

Codecs themselves are Python's; here they are abstract: a `Codec` gives `enc` / `dec` per character-set name.
-/
namespace Mimic.Charset
open Mimic.Variables

/-- the name of the character set a variable currently selects -/
def charsetVar (sch : List Schema) (st : Store) (var : String) : String :=
  match get sch st var with
  | .ok v => pyStr v
  | .error _ => ""

/-- `Connection.client_charset` / `Connection.server_charset` -/
def clientOf (sch : List Schema) (st : Store) : String := charsetVar sch st "character_set_client"
def resultsOf (sch : List Schema) (st : Store) : String := charsetVar sch st "character_set_results"

/-- connection-level events that touch the character sets -/
inductive Ev
  | handshake (collation : Nat)             -- HandshakeResponse41.character_set (1 byte)
  | changeUser (collation : Option Nat)     -- COM_CHANGE_USER with / without the character-set field (2 bytes)
  | setStmt (items : List Item)             -- a SET statement
  | other                                   -- any other command
deriving Repr

structure CState where
  vars : Store
  alive : Bool
deriving Repr

/-- `Collation(id).charset.name` from the extracted table -/
def collCharset (colls : List (Nat × String × String)) (id : Nat) : Option String :=
  (colls.find? (fun c => c.1 == id)).map (fun c => c.2.2)

def adopt (sch : List Schema) (cs : List String) (colls : List (Nat × String × String)) (s : CState) (coll : Nat) : CState :=
  match collCharset colls coll with
  | none => { s with alive := false }                     -- unknown collation id: the packet is rejected, the connection ends
  | some c => match set sch cs false s.vars "character_set_client" (.val (.str c)) with
    | .ok v => { s with vars := v }
    | .error _ => { s with alive := false }               -- no codec for it: rejected, the connection ends

def step (sch : List Schema) (cs : List String) (dc : String → Option String) (colls : List (Nat × String × String)) (s : CState) : Ev → CState
  | .handshake coll => adopt sch cs colls s coll
  | .changeUser none => s
  | .changeUser (some coll) => adopt sch cs colls s coll
  | .setStmt items => { s with vars := (Mimic.Variables.setStmt sch cs dc s.vars items).1 }
  | .other => s

/-- the character sets in force when each command of a history is decoded / its response encoded:
    (client character set at the start of the command, results character set at the end of it) -/
def trace (sch : List Schema) (cs : List String) (dc : String → Option String) (colls : List (Nat × String × String)) (s : CState) : List Ev → List (String × String)
  | [] => []
  | e :: rest =>
    let s' := step sch cs dc colls s e
    if s'.alive then (clientOf sch s.vars, resultsOf sch s'.vars) :: trace sch cs dc colls s' rest
    else [(clientOf sch s.vars, resultsOf sch s'.vars)]

/-- abstract codecs: one encoder / decoder per character-set name -/
structure Codec where
  enc : String → String → Option (List UInt8)
  dec : String → List UInt8 → Option String

/-- a string survives the character set `c` -/
def Representable (k : Codec) (c : String) (s : String) : Prop := ∃ b, k.enc c s = some b ∧ k.dec c b = some s

end Mimic.Charset
