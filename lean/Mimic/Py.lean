/-!
The fragment of Python's `struct` and `io.BytesIO` that `mysql_mimic/types.py` uses, as total functions: the target
language of the translator `harness/pytrans.py` (which regenerates `Mimic/Extracted/Types.lean` from the source of
`types.py` on every run).

Not modelled: `struct.error` for an integer that does not fit its field (here the value is reduced modulo the field
size; every theorem that uses a translated encoder states the range) and `OverflowError` of `BytesIO.read(n)` for
`n ≥ 2^63`.
-/
namespace Mimic.Py
abbrev Bytes := List UInt8

inductive Fmt
  | B | H | I | L | Q          -- unsigned 1, 2, 4, 4, 8 bytes
  | b | h | i | q              -- signed 1, 2, 4, 8 bytes
  | s (n : Nat)                -- n bytes
deriving DecidableEq, Repr

def Fmt.size : Fmt → Nat
  | .B => 1 | .H => 2 | .I => 4 | .L => 4 | .Q => 8
  | .b => 1 | .h => 2 | .i => 4 | .q => 8
  | .s n => n

inductive Arg
  | int (n : Nat)
  | bytes (b : Bytes)
deriving Repr

/-- `k` bytes, little endian -/
def le : Nat → Nat → Bytes
  | 0, _ => []
  | k + 1, n => UInt8.ofNat (n % 256) :: le k (n / 256)

def leVal : Bytes → Nat
  | [] => 0
  | b :: bs => b.toNat + 256 * leVal bs

/-- one field of `struct.pack("<…")` -/
def packOne : Fmt × Arg → Bytes
  | (.s n, .bytes b) => (b ++ List.replicate n 0).take n      -- `<ns`: truncated / NUL-padded to n bytes
  | (.s n, .int _) => List.replicate n 0
  | (f, .int v) => le f.size v
  | (f, .bytes _) => List.replicate f.size 0

/-- `struct.pack("<" + fields, *args)` -/
def pack (fields : List (Fmt × Arg)) : Bytes := (fields.map packOne).flatten

/-- `reader.read(k)`: up to k bytes (fewer at the end of the input), and the rest -/
def read (k : Nat) (r : Bytes) : Bytes × Bytes := (r.take k, r.drop k)

def toSigned (k : Nat) (n : Nat) : Int :=
  if n < 2 ^ (8 * k - 1) then (n : Int) else (n : Int) - (2 ^ (8 * k) : Nat)

/-- `struct.unpack("<" + fields, data)`: `none` (struct.error) unless `data` has exactly the fields' total size -/
def unpack : List Fmt → Bytes → Option (List Int)
  | [], [] => some []
  | [], _ :: _ => none
  | f :: fs, data =>
    if data.length < f.size then none else
    match unpack fs (data.drop f.size) with
    | none => none
    | some rest =>
      let v := leVal (data.take f.size)
      some ((match f with
        | .b | .h | .i | .q => toSigned f.size v
        | _ => (v : Int)) :: rest)

/-- `Flag.X in flags` for a flag whose value is `2^k` -/
def hasBit (n k : Nat) : Bool := n / 2 ^ k % 2 = 1

/-- `str.lower()` on ASCII -/
def lower (s : String) : String := String.ofList (s.toList.map Char.toLower)

/-! ### second-generation translator target (`harness/pytrans2.py`): readers with effects, loops, dynamic values -/

/-- a value in a dynamically typed position (`Any`): what `_read_param_value` can return.  `S` is the type of decoded
    text (`str`) -/
inductive Val (S : Type)
  | none
  | int (z : Int)
  | str (s : S)
  | flt (bits : Bytes)          -- `float`: the bit pattern (`struct.unpack("<f"/"<d")` is opaque)
deriving DecidableEq, Repr

/-- what the translated code takes from its environment (modelled, not verified: the codec and enum tables) -/
structure Env (S : Type) where
  collation : Nat → Option Nat          -- `Collation(n).charset` as a character-set id; `none`: ValueError
  decode : Nat → Bytes → Option S       -- `CharacterSet(cs).decode(b)` / `b.decode(cs.codec)`; `none`: the codec raises
  encode : Nat → S → Option Bytes       -- `CharacterSet(cs).encode(s)`; `none`: the codec raises
  empty : S                             -- `""`
  validType : Nat → Bool                -- `ColumnType(n)` exists
  fltText : Bytes → S                   -- `str(float)` of the value with this bit pattern
  paramAt : Char → List Char → Bool     -- does `REGEX_PARAM` match at this character, given the text after it

/-- `reader.read(k)` for a computed `k`: `OverflowError` when `k` does not fit a C `ssize_t` -/
def readN (k : Nat) (r : Bytes) : Option (Bytes × Bytes) :=
  if k < 2 ^ 63 then some (r.take k, r.drop k) else none

/-- `peek(reader)` -/
def peek1 (r : Bytes) : Bytes := r.take 1

/-- `read_float` / `read_double`: `struct.unpack` needs exactly `k` bytes; the value is its bit pattern -/
def readFlt {S : Type} (k : Nat) (r : Bytes) : Option (Val S × Bytes) :=
  if k ≤ r.length then some (.flt (r.take k), r.drop k) else none

/-- `for x in xs: body` over a state `σ` (assigned variables and the reader position); `none`: the body raised -/
def forM {α σ : Type} : List α → σ → (α → σ → Option σ) → Option σ
  | [], s, _ => some s
  | a :: as, s, f =>
    match f a s with
    | none => none
    | some s' => forM as s' f

/-- one iteration of a `while` loop: go round again, leave the loop, or return from the function -/
inductive Step (σ α : Type)
  | next (s : σ)
  | brk (s : σ)
  | ret (a : α)

/-- `while …: body` with explicit fuel.  Outer `none`: the fuel ran out (the loop did not finish within `fuel`
    iterations); `some none`: the body raised; `some (some x)`: the loop ended with `x` (never `.next`) -/
def loopM {σ α : Type} : Nat → σ → (σ → Option (Step σ α)) → Option (Option (Step σ α))
  | 0, _, _ => none
  | n + 1, s, f =>
    match f s with
    | none => some none
    | some (.next s') => loopM n s' f
    | some x => some (some x)

/-- Python `dict` as an insertion-ordered association list: `d[k] = v` -/
def dictSet {κ ν : Type} [DecidableEq κ] (d : List (κ × ν)) (k : κ) (v : ν) : List (κ × ν) :=
  if d.any (fun x => x.1 = k) then d.map (fun x => if x.1 = k then (x.1, v) else x) else d ++ [(k, v)]

/-- `{k: v for k, v in pairs}` -/
def dictOf {κ ν : Type} [DecidableEq κ] (ps : List (κ × ν)) : List (κ × ν) :=
  ps.foldl (fun d kv => dictSet d kv.1 kv.2) []

def dictGet {κ ν : Type} [DecidableEq κ] (d : List (κ × ν)) (k : κ) : Option ν :=
  (d.find? (fun x => x.1 = k)).map Prod.snd

/-- `d.pop(k, None)` -/
def dictErase {κ ν : Type} [DecidableEq κ] (d : List (κ × ν)) (k : κ) : List (κ × ν) :=
  d.filter (fun x => x.1 ≠ k)

/-- `bytes[i]`: IndexError past the end -/
def byteAt (b : Bytes) (i : Nat) : Option Nat := (b[i]?).map UInt8.toNat

/-! ### text (`str` as `List Char`) -/

/-- `s.replace(c, r)` for a one-character pattern -/
def strReplaceChar (s : List Char) (c : Char) (r : List Char) : List Char :=
  s.flatMap (fun x => if x = c then r else [x])

def natDigitsAux : Nat → Nat → List Char → List Char
  | 0, _, acc => acc
  | fuel + 1, n, acc =>
    if n < 10 then Char.ofNat (48 + n) :: acc
    else natDigitsAux fuel (n / 10) (Char.ofNat (48 + n % 10) :: acc)

/-- `str(n)` for an `int` -/
def intText (z : Int) : List Char :=
  if z < 0 then '-' :: natDigitsAux (z.natAbs + 1) z.natAbs [] else natDigitsAux (z.natAbs + 1) z.natAbs []

/-- `pattern.sub(lambda m: next(it), text)` for a pattern whose matches are single characters: every match, left to
    right, is replaced by the next value; `none`: the values ran out (StopIteration). Returns the unused values too. -/
def subIter (isMatch : Char → List Char → Bool) : List Char → List (List Char) → Option (List Char × List (List Char))
  | [], vals => some ([], vals)
  | c :: cs, vals =>
    if isMatch c cs then
      match vals with
      | [] => none
      | v :: vs => (subIter isMatch cs vs).map (fun r => (v ++ r.1, r.2))
    else (subIter isMatch cs vals).map (fun r => (c :: r.1, r.2))

/-! ### asynchronous generators as their consumer sees them (third translator layer, `harness/pytrans3.py`) -/

/-- the items a generator will still yield, and whether it raises after the last of them -/
structure Gen (α : Type) where
  rows : List α
  boom : Bool
deriving DecidableEq, Repr

/-- `async for x in g: body` with `break`, by structural recursion over the items.  `upd g' s` records the generator's
    new state in the loop state after every pull (the generator is an object the loop state refers to); `err s` is what
    an exception carries.  A finished generator stays finished (`rows = []`, no further raise).  The result is never
    `.next`: `.brk s` after `break` or exhaustion, `.ret a` after `return`, `.error` when the body or the generator raises. -/
def Gen.iterE {α σ ρ ε : Type} (upd : Gen α → σ → σ) (err : σ → ε) (item : α → σ → Except ε (Step σ ρ)) :
    List α → Bool → σ → Except ε (Step σ ρ)
  | [], boom, s =>
    let s' := upd { rows := [], boom := false } s
    if boom then .error (err s') else .ok (.brk s')
  | x :: rest, boom, s =>
    match item x (upd { rows := rest, boom := boom } s) with
    | .ok (.next s') => Gen.iterE upd err item rest boom s'
    | other => other

end Mimic.Py
