/-!
The fragment of Python's `struct` and `io.BytesIO` that `mysql_mimic/types.py` uses, as total functions: the target
language of the translator `harness/pytrans.py` (which regenerates `Mimic/Extracted/Types.lean` from the source of
`types.py` on every run).

Not modelled: `struct.error` for an integer that does not fit its field (here the value is reduced modulo the field
size; every theorem that uses a translated encoder states the range) and `OverflowError` of `BytesIO.read(n)` for
`n ≥ 2^63`.
-/
namespace Mimic.Py
abbrev Bytes := List UInt8

inductive Fmt
  | B | H | I | L | Q          -- unsigned 1, 2, 4, 4, 8 bytes
  | b | h | i | q              -- signed 1, 2, 4, 8 bytes
  | s (n : Nat)                -- n bytes
deriving DecidableEq, Repr

def Fmt.size : Fmt → Nat
  | .B => 1 | .H => 2 | .I => 4 | .L => 4 | .Q => 8
  | .b => 1 | .h => 2 | .i => 4 | .q => 8
  | .s n => n

inductive Arg
  | int (n : Nat)
  | bytes (b : Bytes)
deriving Repr

/-- `k` bytes, little endian -/
def le : Nat → Nat → Bytes
  | 0, _ => []
  | k + 1, n => UInt8.ofNat (n % 256) :: le k (n / 256)

def leVal : Bytes → Nat
  | [] => 0
  | b :: bs => b.toNat + 256 * leVal bs

/-- one field of `struct.pack("<…")` -/
def packOne : Fmt × Arg → Bytes
  | (.s n, .bytes b) => (b ++ List.replicate n 0).take n      -- `<ns`: truncated / NUL-padded to n bytes
  | (.s n, .int _) => List.replicate n 0
  | (f, .int v) => le f.size v
  | (f, .bytes _) => List.replicate f.size 0

/-- `struct.pack("<" + fields, *args)` -/
def pack (fields : List (Fmt × Arg)) : Bytes := (fields.map packOne).flatten

/-- `reader.read(k)`: up to k bytes (fewer at the end of the input), and the rest -/
def read (k : Nat) (r : Bytes) : Bytes × Bytes := (r.take k, r.drop k)

def toSigned (k : Nat) (n : Nat) : Int :=
  if n < 2 ^ (8 * k - 1) then (n : Int) else (n : Int) - (2 ^ (8 * k) : Nat)

/-- `struct.unpack("<" + fields, data)`: `none` (struct.error) unless `data` has exactly the fields' total size -/
def unpack : List Fmt → Bytes → Option (List Int)
  | [], [] => some []
  | [], _ :: _ => none
  | f :: fs, data =>
    if data.length < f.size then none else
    match unpack fs (data.drop f.size) with
    | none => none
    | some rest =>
      let v := leVal (data.take f.size)
      some ((match f with
        | .b | .h | .i | .q => toSigned f.size v
        | _ => (v : Int)) :: rest)

/-- `Flag.X in flags` for a flag whose value is `2^k` -/
def hasBit (n k : Nat) : Bool := n / 2 ^ k % 2 = 1

/-- `str.lower()` on ASCII -/
def lower (s : String) : String := String.ofList (s.toList.map Char.toLower)

end Mimic.Py
