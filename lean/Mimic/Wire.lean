/-!
L0 — wire primitives of `mysql_mimic/types.py`: little-endian integers of fixed width (unsigned and two's
complement), length-encoded integers and strings, and a cursor-style reader over a byte list mirroring the
`read_*` functions over `io.BytesIO` (a short read makes `struct.unpack` raise: `none` here).
-/
namespace Mimic.Wire
abbrev Bytes := List UInt8

/-- `k` bytes, little endian, of `n` (as `struct.pack("<B/H/I/Q")`, `uint_3`, `uint_6`) -/
def leN : Nat → Nat → Bytes
  | 0, _ => []
  | k + 1, n => UInt8.ofNat (n % 256) :: leN k (n / 256)

def leVal : Bytes → Nat
  | [] => 0
  | b :: bs => b.toNat + 256 * leVal bs

/-- take exactly `k` bytes or fail (`reader.read(k)` followed by `struct.unpack`) -/
def takeN (k : Nat) (b : Bytes) : Option (Bytes × Bytes) :=
  if k ≤ b.length then some (b.take k, b.drop k) else none

def readUInt (k : Nat) (b : Bytes) : Option (Nat × Bytes) :=
  match takeN k b with
  | some (x, r) => some (leVal x, r)
  | none => none

/-- two's complement interpretation of a `k`-byte value -/
def toSigned (k : Nat) (n : Nat) : Int :=
  if n < 2 ^ (8 * k - 1) then (n : Int) else (n : Int) - (2 ^ (8 * k) : Nat)

/-- `struct.pack("<b/h/i/q", z)`: defined for `-2^(8k-1) ≤ z < 2^(8k-1)` (Python raises `struct.error` otherwise) -/
def ofSigned (k : Nat) (z : Int) : Nat := (z % ((2 ^ (8 * k) : Nat) : Int)).toNat

def inSigned (k : Nat) (z : Int) : Prop := -((2 ^ (8 * k - 1) : Nat) : Int) ≤ z ∧ z < ((2 ^ (8 * k - 1) : Nat) : Int)

instance (k : Nat) (z : Int) : Decidable (inSigned k z) := by unfold inSigned; infer_instance

def readSInt (k : Nat) (b : Bytes) : Option (Int × Bytes) :=
  match readUInt k b with
  | some (n, r) => some (toSigned k n, r)
  | none => none

/-- `uint_len` -/
def encLen (n : Nat) : Bytes :=
  if n < 251 then [UInt8.ofNat n]
  else if n < 2 ^ 16 then 0xFC :: leN 2 n
  else if n < 2 ^ 24 then 0xFD :: leN 3 n
  else 0xFE :: leN 8 n

/-- `read_uint_len` (0xFB and 0xFF are returned as plain values, exactly as the code does) -/
def decLen : Bytes → Option (Nat × Bytes)
  | [] => none
  | b :: rest =>
    if b = 0xFE then readUInt 8 rest
    else if b = 0xFD then readUInt 3 rest
    else if b = 0xFC then readUInt 2 rest
    else some (b.toNat, rest)

/-- `str_len` -/
def encStr (s : Bytes) : Bytes := encLen s.length ++ s

/-- `read_str_len`: NOTE `read_str_fixed` is `reader.read(l)`, which returns *fewer* bytes at end of input
    instead of failing — but raises `OverflowError` when `l` does not fit a C `ssize_t` (`l ≥ 2^63`) -/
def decStr (b : Bytes) : Option (Bytes × Bytes) :=
  match decLen b with
  | some (n, r) => if n < 2 ^ 63 then some (r.take n, r.drop n) else none
  | none => none

/-- strict variant used by the client-side (specification) decoders: the string must be complete -/
def decStrStrict (b : Bytes) : Option (Bytes × Bytes) :=
  match decLen b with
  | some (n, r) => if n ≤ r.length then some (r.take n, r.drop n) else none
  | none => none

/-- `read_str_null` (after the fix: end of input also terminates) -/
def readNul : Bytes → Bytes × Bytes
  | [] => ([], [])
  | b :: rest => if b = 0 then ([], rest) else let r := readNul rest; (b :: r.1, r.2)

end Mimic.Wire
