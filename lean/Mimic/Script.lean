import Mimic.Conn
/-!
Handler scripts: for every command of the supported set, the micro-operations the handler performs given the
negotiated `CLIENT_DEPRECATE_EOF` bit and the application's behaviour (the *plan*).  Mirrors `connection.py`
(`handle_*`, `text_resultset`, `com_stmt_prepare_response`).  Columns are explicit `ResultColumn`s here (type
inference, which pulls rows before anything is written, is C05's subject).
-/
namespace Mimic.Script
open Mimic.Conn

/-- one step of a row source -/
inductive RStep
  | row (id : Nat) (susp : Bool)      -- yields a row, possibly after awaiting something
  | boom (susp : Bool)                -- raises, possibly after awaiting something
deriving Repr, DecidableEq

inductive Fail | none | generic | mysql
deriving Repr, DecidableEq

/-- behaviour of the application for one `handle_query` call -/
structure Plan where
  callSusp : Bool := false            -- `handle_query` awaits something pending before returning
  fail : Fail := .none                -- it raises instead of returning
  ncols : Nat := 1                    -- 0: no result set (OK)
  rows : List RStep := []
  selfKill : Option Kill := none      -- the statement is KILL [QUERY] <own id>
deriving Repr

def rowOps (drainEach : Bool) : List RStep → List Op
  | [] => []
  | .row id susp :: r => [.pull susp, .emit (.row id)] ++ (if drainEach then [.drain] else []) ++ rowOps drainEach r
  | .boom susp :: _ => [.pull susp, .raise_ .generic]

/-- the application call shared by all handlers that query -/
def callOps (p : Plan) : List Op :=
  match p.fail with
  | .none => [.call .query p.callSusp false] ++ (match p.selfKill with | some k => [.selfKill k] | none => [])
  | .generic => [.call .query p.callSusp true]
  | .mysql => [.call .query p.callSusp false, .raise_ .mysqlError]

def colDefs (drainEach : Bool) (n : Nat) : List Op :=
  (List.replicate n (if drainEach then [Op.emit .colDef, .drain] else [Op.emit .colDef])).flatten

inductive Cmd
  | query (p : Plan)                                  -- COM_QUERY, text protocol
  | ping                                              -- also COM_RESET_CONNECTION, COM_DEBUG
  | initDb (fails : Bool)
  | quit
  | prepare (nparams : Nat)
  | execute (known : Bool) (cursor : Bool) (p : Plan) -- COM_STMT_EXECUTE
  | fetch (known : Bool) (hasCursor : Bool) (n : Nat) (remaining : List RStep)
  | stmtReset (known : Bool)
  | stmtClose                                         -- no reply, known or not
  | longData                                          -- no reply, known or not
  | fieldList (p : Plan)
  | changeUser (ok : Bool)                            -- COM_CHANGE_USER: accepted / denied
  | changeUserRaised                                  -- COM_CHANGE_USER whose exchange fails with an exception
  | unknown                                           -- unsupported command byte
  | malformed                                         -- a payload the parser rejects (`struct.error` etc.)
deriving Repr

/-- rows a fetch of `n` pulls: the first `n` steps (a `boom` ends it) -/
def fetchSteps : Nat → List RStep → List RStep
  | 0, _ => []
  | _, [] => []
  | n + 1, .row id s :: r => .row id s :: fetchSteps n r
  | _ + 1, .boom s :: _ => [.boom s]

def scriptOf (dep : Bool) : Cmd → List Op
  | .query p =>
    callOps p ++
      (if p.fail ≠ .none then [] else
       if p.ncols = 0 then [.emit .ok, .drain]
       else [.emit (.colCount p.ncols)] ++ colDefs false p.ncols ++ (if dep then [] else [.emit .eofMeta]) ++
            rowOps false p.rows ++ [.emit (.term 0), .drain])
  | .ping => [.emit .ok, .drain]
  | .initDb fails => [.call .use false fails, .emit .ok, .drain]
  | .quit => [.quit]
  | .prepare np =>
    [.emit (.prepOk np)] ++ colDefs false np ++ (if np = 0 ∨ dep then [] else [.emit .eofMeta]) ++ [.drain]
  | .execute known cursor p =>
    if !known then [.raise_ .mysqlError] else
    callOps p ++
      (if p.fail ≠ .none then [] else
       if p.ncols = 0 then [.emit .ok, .drain]
       else [.emit (.colCount p.ncols), .drain] ++ colDefs true p.ncols ++
            (if cursor then [.emit (.term 0x40), .drain]
             else (if dep then [] else [.emit .eofMeta, .drain]) ++ rowOps true p.rows ++ [.emit (.term 0), .drain]))
  | .fetch known hasCursor n remaining =>
    if !known then [.raise_ .mysqlError]
    else if !hasCursor then [.raise_ .generic]
    else rowOps false (fetchSteps n remaining) ++ [.drain] ++
         [.emit (.term (if n ≤ (remaining.takeWhile (fun r => match r with | .row _ _ => true | _ => false)).length
                            then 0x40 else 0x80)), .drain]
  | .stmtReset known => if known then [.call .reset false false, .emit .ok, .drain] else [.raise_ .mysqlError]
  | .stmtClose => []
  | .longData => []
  | .fieldList p =>
    callOps p ++ (if p.fail ≠ .none then [] else colDefs false p.rows.length ++ [.emit (.term 0), .drain])
  | .changeUser ok =>
    if ok then [.emit .ok, .drain, .call .reset false false]
    else [.emit (.err .accessDenied), .drain, .raise_ .authFailed]
  | .changeUserRaised => [.emit (.err .generic), .drain, .raise_ .authFailed]
  | .unknown => [.raise_ .mysqlError]
  | .malformed => [.raise_ .generic]

/-- the connection phase after the handshake response arrived -/
inductive Login | ok (initSusp : Bool) (initFails : Bool) | denied | unknownUser | malformed
deriving Repr

def loginScript : Login → List Op
  | .ok _ _ => [.emit .ok, .drain]
  | .denied => [.emit (.err .accessDenied), .drain, .raise_ .authFailed]
  | .unknownUser => [.emit (.err .unknownUser), .drain, .raise_ .authFailed]
  | .malformed => [.raise_ .generic]

end Mimic.Script
