import Mimic.Wire
import Mimic.Py
/-!
L2 — client packet parsers of `packets.py` that are not covered by `Mimic.Params`: `parse_handshake_response`,
`_read_connect_attrs`, `parse_com_change_user`, `parse_com_field_list` and the fixed-layout statement commands.
All are total functions on byte lists (structural recursion or explicit fuel bounded by the input length).
`dec` is the client character set's decoder (`none` = the codec raises).
-/
namespace Mimic.Packets
open Mimic.Wire

/-- capability bits used by the parsers -/
def CONNECT_WITH_DB : Nat := 8
def PROTOCOL_41 : Nat := 512
def SSL : Nat := 2048
def SECURE_CONNECTION : Nat := 32768
def PLUGIN_AUTH : Nat := 524288
def CONNECT_ATTRS : Nat := 1048576
def LENENC_CLIENT_DATA : Nat := 2097152
def ZSTD : Nat := 67108864

def has (caps bit : Nat) : Bool := (caps / bit) % 2 = 1

/-- `_read_connect_attrs`: `while total_l > 0: key = read_str_len; value = read_str_len; total_l -= len(str_len(key) + str_len(value))`.
    `fuel` bounds the iterations; every iteration consumes at least two bytes, so `input.length` is enough. -/
def readConnectAttrs (dec : Bytes → Option Bytes) : Nat → Int → Bytes → Option (List (Bytes × Bytes) × Bytes)
  | 0, total, b => if total > 0 then none else some ([], b)
  | fuel + 1, total, b =>
    if total > 0 then
      match decStr b with
      | none => none
      | some (k, b1) =>
        match decStr b1 with
        | none => none
        | some (v, b2) =>
          match dec k, dec v with
          | some dk, some dv =>
            (readConnectAttrs dec fuel (total - ((encStr k).length + (encStr v).length : Nat)) b2).map
              (fun r => ((dk, dv) :: r.1, r.2))
          | _, _ => none
    else some ([], b)

/-- `_read_connect_attrs`: the pairs go into a Python `dict` (a repeated key keeps its first position and takes the last
    value) -/
def connectAttrs (dec : Bytes → Option Bytes) (b : Bytes) : Option (List (Bytes × Bytes) × Bytes) :=
  match decLen b with
  | none => none
  | some (total, rest) => (readConnectAttrs dec (rest.length + 1) total rest).map (fun x => (Mimic.Py.dictOf x.1, x.2))

structure HsResp where
  caps : Nat
  maxPacket : Nat
  charset : Nat
  username : Bytes
  auth : Bytes
  db : Option Bytes
  plugin : Option Bytes
  attrs : List (Bytes × Bytes)
  zstd : Nat
deriving Repr, DecidableEq

inductive HsParse
  | ssl (caps maxPacket charset : Nat)
  | resp (r : HsResp)
  | error
deriving Repr, DecidableEq

/-- optional NUL-terminated field -/
def optNul (dec : Bytes → Option Bytes) (present : Bool) (b : Bytes) : Option (Option Bytes × Bytes) :=
  if present then (dec (readNul b).1).map (fun s => (some s, (readNul b).2)) else some (none, b)

/-- `parse_handshake_response(capabilities = server caps, data)`. `collation c` = the character set id of
    `Collation(c).charset` (`none`: no such collation); `dec cs` = decoder of character set `cs` -/
def parseHandshakeResponse (serverCaps : Nat) (collation : Nat → Option Nat) (dec : Nat → Bytes → Option Bytes)
    (data : Bytes) : HsParse :=
  match readUInt 4 data with
  | none => .error
  | some (ccaps, b1) =>
    match readUInt 4 b1 with
    | none => .error
    | some (maxp, b2) =>
      match b2 with
      | [] => .error
      | coll :: b3 =>
        match collation coll.toNat with
        | none => .error
        | some cs =>
        -- `read_str_fixed(r, 23)` is lenient; `peek` = is there anything left
        if (b3.drop 23).isEmpty then .ssl (Nat.land serverCaps ccaps) maxp cs else
        match dec cs (readNul (b3.drop 23)).1 with
        | none => .error
        | some user =>
          match (if has (Nat.land serverCaps ccaps) LENENC_CLIENT_DATA then decStr (readNul (b3.drop 23)).2
                 else match (readNul (b3.drop 23)).2 with
                   | [] => none
                   | l :: r => some (r.take l.toNat, r.drop l.toNat)) with
          | none => .error
          | some (auth, b5) =>
            match optNul (dec cs) (has (Nat.land serverCaps ccaps) CONNECT_WITH_DB) b5 with
            | none => .error
            | some (db, b6) =>
              match optNul (dec cs) (has (Nat.land serverCaps ccaps) PLUGIN_AUTH) b6 with
              | none => .error
              | some (plugin, b7) =>
                match (if has (Nat.land serverCaps ccaps) CONNECT_ATTRS then connectAttrs (dec cs) b7 else some ([], b7)) with
                | none => .error
                | some (attrs, b8) =>
                  match (if has (Nat.land serverCaps ccaps) ZSTD then
                           (match b8 with | [] => none | z :: _ => some z.toNat) else some 0) with
                  | none => .error
                  | some z => .resp { caps := Nat.land serverCaps ccaps, maxPacket := maxp, charset := cs,
                                      username := user, auth := auth, db := db, plugin := plugin, attrs := attrs, zstd := z }

/-- fixed-layout statement commands: `(stmt_id [, second field])` -/
def parseStmtId (b : Bytes) : Option Nat := (readUInt 4 b).map Prod.fst
def parseFetch (b : Bytes) : Option (Nat × Nat) :=
  match readUInt 4 b with
  | none => none
  | some (sid, r) => (readUInt 4 r).map (fun x => (sid, x.1))
def parseLongData (b : Bytes) : Option (Nat × Nat × Bytes) :=
  match readUInt 4 b with
  | none => none
  | some (sid, r) => (readUInt 2 r).map (fun x => (sid, x.1, x.2))

end Mimic.Packets
