import Mimic.Results
import Mimic.Extracted.Results
/-! Glue between the extracted encoder tables of `results.py` and the encoder classes of the model. -/
namespace Mimic.Results
open Mimic.Extracted.Results

/-- the model's semantics for each encoder *function* of `results.py` (validated differentially) -/
def binClassOfName : String → BinEnc
  | "_binary_encode_tiny" => .tiny
  | "_binary_encode_short" => .short
  | "_binary_encode_int" => .long
  | "_binary_encode_long" => .long
  | "_binary_encode_longlong" => .longlong
  | "_binary_encode_float" => .float
  | "_binary_encode_double" => .double
  | "_binary_encode_str" => .str
  | "_binary_encode_date" => .date
  | "_binary_encode_timedelta" => .time
  | _ => .unsupported

def textClassOfName : String → TextEnc
  | "_text_encode_str" => .str
  | "_text_encode_tiny" => .tiny
  | "_text_encode_time" => .time
  | "_binary_encode_tiny" => .rawTiny
  | _ => .unsupported

def lookup (t : List (Nat × String)) (code : Nat) : String :=
  match t.find? (fun kv => kv.1 == code) with
  | some kv => kv.2
  | none => "_unsupported"

/-- encoder class of a column type code, as `ResultColumn.__init__` selects it -/
def binEnc (code : Nat) : BinEnc := binClassOfName (lookup binaryEncoders code)
def textEnc (code : Nat) : TextEnc := textClassOfName (lookup textEncoders code)

/-- Python `isinstance(value_of_type a, b)` on the types that `infer_type` distinguishes -/
def isSub (a b : String) : Bool := a == b || (a == "bool" && b == "int") || (a == "datetime" && b == "date")

/-- `infer_type`: first entry of `_PY_TO_MYSQL_TYPE` (in dict order) that the value is an instance of -/
def inferCode (py : String) : Nat :=
  match pyToMysql.find? (fun kv => isSub py kv.1) with
  | some kv => kv.2
  | none => inferFallback

end Mimic.Results
