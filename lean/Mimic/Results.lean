import Mimic.Wire
/-!
L2 — result encoding (`results.py` encoders, `NullBitmap`, `packets.make_text_resultset_row`,
`packets.make_binary_resultrow`) and the client-side decoders (the specification side, written from the
protocol documentation).

Floats are opaque: a float value carries the bytes `struct.pack("<f")`, `struct.pack("<d")` and
`str(v).encode()` produced by Python; strings are already encoded in the column's character set (C15).
-/
namespace Mimic.Results
open Mimic.Wire

/-- the binary-protocol encoder a column type is mapped to (`_BINARY_ENCODERS`) -/
inductive BinEnc | tiny | short | long | longlong | float | double | str | date | time | unsupported
deriving Repr, DecidableEq

/-- the text-protocol encoder a column type is mapped to (`_TEXT_ENCODERS`) -/
inductive TextEnc | str | tiny | time | rawTiny | unsupported
deriving Repr, DecidableEq

inductive Val
  | null
  | int (z : Int)                                   -- int and bool
  | str (b : Bytes)                                 -- str (encoded) / bytes
  | flt (p4 p8 txt : Bytes)                         -- float, opaque
  | date (y m d : Nat)
  | datetime (y mo d h mi s us : Nat)
  | dur (us : Int)                                  -- timedelta, total microseconds
deriving Repr, DecidableEq

/-! ### decimal text -/

def natToDecAux : Nat → Nat → List UInt8 → List UInt8
  | 0, _, acc => acc
  | fuel + 1, n, acc =>
    if n < 10 then UInt8.ofNat (48 + n) :: acc
    else natToDecAux fuel (n / 10) (UInt8.ofNat (48 + n % 10) :: acc)

/-- `str(n).encode()` for a natural number -/
def natToDec (n : Nat) : Bytes := natToDecAux (n + 1) n []

def intToDec (z : Int) : Bytes := if z < 0 then 45 :: natToDec z.natAbs else natToDec z.natAbs

/-- fixed-width zero padded decimal (`%02d`, `%04d`, `%06d`) — wider values are not truncated -/
def pad (w n : Nat) : Bytes := List.replicate (w - (natToDec n).length) 48 ++ natToDec n

def decToNat : Bytes → Option Nat
  | [] => none
  | bs => bs.foldl (fun acc b => match acc with
      | none => none
      | some a => if 48 ≤ b.toNat ∧ b.toNat ≤ 57 then some (10 * a + (b.toNat - 48)) else none) (some 0)

def decToInt : Bytes → Option Int
  | 45 :: rest => match decToNat rest with
    | some n => some (-(n : Int))
    | none => none
  | bs => match decToNat bs with
    | some n => some (n : Int)
    | none => none

/-! ### temporal values -/

/-- fields of the binary TIME value: (negative, days, hours, minutes, seconds, microseconds) -/
def durFields (us : Int) : Nat × Nat × Nat × Nat × Nat × Nat :=
  let a := us.natAbs
  let secs := a / 1000000
  ((if us < 0 then 1 else 0), secs / 86400, secs % 86400 / 3600, secs % 3600 / 60, secs % 60, a % 1000000)

/-- `_binary_encode_timedelta` -/
def binDur (us : Int) : Bytes :=
  let f := durFields us
  if f.2.2.2.2.2 = 0 then
    if f.2.1 = 0 ∧ f.2.2.1 = 0 ∧ f.2.2.2.1 = 0 ∧ f.2.2.2.2.1 = 0 then [0]
    else 8 :: UInt8.ofNat f.1 :: (leN 4 f.2.1 ++ [UInt8.ofNat f.2.2.1, UInt8.ofNat f.2.2.2.1, UInt8.ofNat f.2.2.2.2.1])
  else 12 :: UInt8.ofNat f.1 ::
      (leN 4 f.2.1 ++ [UInt8.ofNat f.2.2.1, UInt8.ofNat f.2.2.2.1, UInt8.ofNat f.2.2.2.2.1] ++ leN 4 f.2.2.2.2.2)

/-- `_text_encode_time`: `[-]HH:MM:SS[.ffffff]`, hours unbounded -/
def textDur (us : Int) : Bytes :=
  let a := us.natAbs
  let secs := a / 1000000
  (if us < 0 then [45] else []) ++ pad 2 (secs / 3600) ++ [58] ++ pad 2 (secs % 3600 / 60) ++ [58] ++ pad 2 (secs % 60)
    ++ (if a % 1000000 = 0 then [] else 46 :: pad 6 (a % 1000000))

/-- `_binary_encode_date` on (year, month, day, hour, minute, second, microsecond) -/
def binDate (y mo d h mi s us : Nat) : Bytes :=
  if us = 0 then
    if h = 0 ∧ mi = 0 ∧ s = 0 then
      if y = 0 ∧ mo = 0 ∧ d = 0 then [0] else 4 :: (leN 2 y ++ [UInt8.ofNat mo, UInt8.ofNat d])
    else 7 :: (leN 2 y ++ [UInt8.ofNat mo, UInt8.ofNat d, UInt8.ofNat h, UInt8.ofNat mi, UInt8.ofNat s])
  else 11 :: (leN 2 y ++ [UInt8.ofNat mo, UInt8.ofNat d, UInt8.ofNat h, UInt8.ofNat mi, UInt8.ofNat s] ++ leN 4 us)

def textDate (y m d : Nat) : Bytes := pad 4 y ++ [45] ++ pad 2 m ++ [45] ++ pad 2 d

def textDatetime (y mo d h mi s us : Nat) : Bytes :=
  textDate y mo d ++ [32] ++ pad 2 h ++ [58] ++ pad 2 mi ++ [58] ++ pad 2 s ++ (if us = 0 then [] else 46 :: pad 6 us)

/-! ### cell encoders -/

/-- `str(val).encode(codec)` / the bytes themselves (`_text_encode_str`) -/
def strOf : Val → Option Bytes
  | .null => none
  | .int z => some (intToDec z)
  | .str b => some b
  | .flt _ _ t => some t
  | .date y m d => some (textDate y m d)
  | .datetime y mo d h mi s us => some (textDatetime y mo d h mi s us)
  | .dur _ => none            -- str(timedelta) is not modelled (never sent for TIME columns)

def sInt (k : Nat) (z : Int) : Option Bytes := if inSigned k z then some (leN k (ofSigned k z)) else none

/-- binary protocol value of one non-NULL cell; `none` = the encoder raises -/
def binCell : BinEnc → Val → Option Bytes
  | .tiny, .int z => sInt 1 z
  | .short, .int z => sInt 2 z
  | .long, .int z => sInt 4 z
  | .longlong, .int z => sInt 8 z
  | .float, .flt p4 _ _ => some p4
  | .double, .flt _ p8 _ => some p8
  | .str, v => (strOf v).map encStr
  | .date, .date y m d => some (binDate y m d 0 0 0 0)
  | .date, .datetime y mo d h mi s us => some (binDate y mo d h mi s us)
  | .time, .dur us => some (binDur us)
  | _, _ => none

/-- text protocol value of one non-NULL cell (before the length prefix) -/
def textCell : TextEnc → Val → Option Bytes
  | .str, v => strOf v
  | .tiny, .int z => some (intToDec z)
  | .time, .dur us => some (textDur us)
  | .time, v => strOf v
  | _, _ => none

/-! ### rows -/

def optAll {α : Type} : List (Option α) → Option (List α)
  | [] => some []
  | none :: _ => none
  | some a :: rest => (optAll rest).map (a :: ·)

/-- `make_text_resultset_row` over `zip(row, columns)` -/
def textRow (cols : List TextEnc) (row : List Val) : Option Bytes :=
  (optAll ((row.zip cols).map (fun vc => match vc.1 with
      | .null => some [0xFB]
      | v => (textCell vc.2 v).map encStr))).map List.flatten

def pack8 (b0 b1 b2 b3 b4 b5 b6 b7 : Bool) : UInt8 :=
  UInt8.ofNat (b0.toNat + 2 * b1.toNat + 4 * b2.toNat + 8 * b3.toNat + 16 * b4.toNat + 32 * b5.toNat
               + 64 * b6.toNat + 128 * b7.toNat)

/-- `NullBitmap`: `_num_bytes = (n + 7 + offset) // 8`, bit `i + offset` set iff cell `i` is NULL -/
def bitmapGet (offset : Nat) (nulls : List Bool) (pos : Nat) : Bool :=
  if pos < offset then false else nulls.getD (pos - offset) false

def bitmap (offset : Nat) (nulls : List Bool) : Bytes :=
  (List.range ((nulls.length + 7 + offset) / 8)).map (fun j =>
    let g := bitmapGet offset nulls
    pack8 (g (8 * j)) (g (8 * j + 1)) (g (8 * j + 2)) (g (8 * j + 3)) (g (8 * j + 4)) (g (8 * j + 5)) (g (8 * j + 6))
      (g (8 * j + 7)))

/-- `NullBitmap.is_flipped` -/
def isFlipped (offset : Nat) (bm : Bytes) (i : Nat) : Bool :=
  ((bm.getD ((i + offset) / 8) 0).toNat / 2 ^ ((i + offset) % 8)) % 2 = 1

def isNull : Val → Bool
  | .null => true
  | _ => false

/-- `make_binary_resultrow`: header 0, bitmap over `len(row)` cells with offset 2, values of the non-NULL
    cells of `zip(row, columns)` -/
def binRow (cols : List BinEnc) (row : List Val) : Option Bytes :=
  (optAll (((row.zip cols).filter (fun vc => !isNull vc.1)).map (fun vc => binCell vc.2 vc.1))).map
    (fun vals => 0 :: (bitmap 2 (row.map isNull) ++ vals.flatten))

/-! ### client-side decoders (specification) -/

/-- text row: `ncols` cells, each `0xFB` (NULL) or a length-encoded string -/
def textRowDec : Nat → Bytes → Option (List (Option Bytes))
  | 0, [] => some []
  | 0, _ :: _ => none
  | n + 1, 0xFB :: rest => (textRowDec n rest).map (none :: ·)
  | n + 1, b =>
    match decStrStrict b with
    | some (s, rest) => (textRowDec n rest).map (some s :: ·)
    | none => none

/-- what a binary-protocol client obtains for one cell -/
inductive CV
  | null
  | int (z : Int)
  | bytes (b : Bytes)
  | raw (b : Bytes)                                  -- float / double bit pattern
  | temporal (y mo d h mi s us : Nat)
  | dur (us : Int)
deriving Repr, DecidableEq

def byteAt (b : Bytes) (i : Nat) : Nat := (b.getD i 0).toNat

/-- decode one binary cell of the given encoder class -/
def binCellDec : BinEnc → Bytes → Option (CV × Bytes)
  | .tiny, b => (readSInt 1 b).map (fun r => (.int r.1, r.2))
  | .short, b => (readSInt 2 b).map (fun r => (.int r.1, r.2))
  | .long, b => (readSInt 4 b).map (fun r => (.int r.1, r.2))
  | .longlong, b => (readSInt 8 b).map (fun r => (.int r.1, r.2))
  | .float, b => (takeN 4 b).map (fun r => (.raw r.1, r.2))
  | .double, b => (takeN 8 b).map (fun r => (.raw r.1, r.2))
  | .str, b => (decStrStrict b).map (fun r => (.bytes r.1, r.2))
  | .date, [] => none
  | .date, l :: b =>
    if l = 0 then some (.temporal 0 0 0 0 0 0 0, b)
    else if l = 4 then (takeN 4 b).map (fun r => (.temporal (leVal (r.1.take 2)) (byteAt r.1 2) (byteAt r.1 3) 0 0 0 0, r.2))
    else if l = 7 then (takeN 7 b).map (fun r =>
      (.temporal (leVal (r.1.take 2)) (byteAt r.1 2) (byteAt r.1 3) (byteAt r.1 4) (byteAt r.1 5) (byteAt r.1 6) 0, r.2))
    else if l = 11 then (takeN 11 b).map (fun r =>
      (.temporal (leVal (r.1.take 2)) (byteAt r.1 2) (byteAt r.1 3) (byteAt r.1 4) (byteAt r.1 5) (byteAt r.1 6)
        (leVal (r.1.drop 7)), r.2))
    else none
  | .time, [] => none
  | .time, l :: b =>
    if l = 0 then some (.dur 0, b)
    else if l = 8 then (takeN 8 b).map (fun r =>
      let mag : Int := ((((leVal ((r.1.drop 1).take 4) * 24 + byteAt r.1 5) * 60 + byteAt r.1 6) * 60 + byteAt r.1 7) * 1000000 : Nat)
      (.dur (if byteAt r.1 0 = 1 then -mag else mag), r.2))
    else if l = 12 then (takeN 12 b).map (fun r =>
      let mag : Int := ((((leVal ((r.1.drop 1).take 4) * 24 + byteAt r.1 5) * 60 + byteAt r.1 6) * 60 + byteAt r.1 7) * 1000000
                        + leVal (r.1.drop 8) : Nat)
      (.dur (if byteAt r.1 0 = 1 then -mag else mag), r.2))
    else none
  | .unsupported, _ => none

/-- decode the cells of a binary row given the column encoders and the NULL flags -/
def binCellsDec : List (BinEnc × Bool) → Bytes → Option (List CV)
  | [], [] => some []
  | [], _ :: _ => none
  | (_, true) :: cs, b => (binCellsDec cs b).map (CV.null :: ·)
  | (t, false) :: cs, b =>
    match binCellDec t b with
    | some (v, rest) => (binCellsDec cs rest).map (v :: ·)
    | none => none

/-- binary row: header `0x00`, NULL bitmap with offset 2, then the values -/
def binRowDec (cols : List BinEnc) : Bytes → Option (List CV)
  | 0 :: b =>
    let n := cols.length
    let nb := (n + 7 + 2) / 8
    if nb ≤ b.length then
      binCellsDec (cols.zip ((List.range n).map (isFlipped 2 (b.take nb)))) (b.drop nb)
    else none
  | _ => none

/-- the value a client is expected to see for a cell -/
def view : BinEnc → Val → CV
  | _, .null => .null
  | .str, v => match strOf v with | some b => .bytes b | none => .null
  | .float, .flt p4 _ _ => .raw p4
  | .double, .flt _ p8 _ => .raw p8
  | _, .int z => .int z
  | _, .date y m d => .temporal y m d 0 0 0 0
  | _, .datetime y mo d h mi s us => .temporal y mo d h mi s us
  | _, .dur us => .dur us
  | _, _ => .null

/-! ### type inference with peeking (`_ensure_result_cols`) -/

/-- inferred type tag of a value (`infer_type`): position in `_PY_TO_MYSQL_TYPE` is extracted separately -/
inductive Ty | tiny | datetime | string | blob | longlong | double | date | time | null
deriving Repr, DecidableEq

/-- the peek loop: consume rows until every bare column has shown a non-NULL value or the source ends.
    `todo`: indexes still to infer. Returns (rows consumed, rows not consumed, remaining todo). -/
def peek (todo : List Nat) : List (List Val) → List (List Val) → List (List Val) × List (List Val) × List Nat
  | acc, [] => (acc.reverse, [], todo)
  | acc, r :: rs =>
    if todo.isEmpty then (acc.reverse, r :: rs, todo)
    else
      if (todo.filter (fun i => isNull (r.getD i .null))).isEmpty
      then ((r :: acc).reverse, rs, todo.filter (fun i => isNull (r.getD i .null)))
      else peek (todo.filter (fun i => isNull (r.getD i .null))) (r :: acc) rs
termination_by _ rows => rows.length

/-- the rows handed on after inference: the peeked rows re-chained in front of the rest -/
def afterInfer (todo : List Nat) (rows : List (List Val)) : List (List Val) :=
  let p := peek todo [] rows
  p.1 ++ p.2.1

end Mimic.Results
