import Mimic.Wire
/-!
L1 — the reply packets every response is made of (`make_ok`, `make_eof`, `make_error`,
`make_column_definition_41`) and the client-side (specification) decoders for them.
-/
namespace Mimic.Reply
open Mimic.Wire

structure Ok where
  eofHeader : Bool      -- 0xFE header: OK used as the terminator of a result set (CLIENT_DEPRECATE_EOF)
  affected : Nat
  lastId : Nat
  status : Nat
  warnings : Nat
deriving DecidableEq, Repr

/-- `make_ok` (`p41` = CLIENT_PROTOCOL_41 negotiated, `trans` = CLIENT_TRANSACTIONS) -/
def encOk (p41 trans : Bool) (o : Ok) : Bytes :=
  (if o.eofHeader then 0xFE else 0x00) :: (encLen o.affected ++ encLen o.lastId ++
    (if p41 then leN 2 o.status ++ leN 2 o.warnings else if trans then leN 2 o.status else []))

/-- what a 4.1 client reads from an OK packet -/
def decOk (b : Bytes) : Option Ok :=
  match b with
  | [] => none
  | h :: r =>
    if h ≠ 0x00 ∧ h ≠ 0xFE then none else
    match decLen r with
    | none => none
    | some (a, r1) => match decLen r1 with
      | none => none
      | some (l, r2) => match readUInt 2 r2 with
        | none => none
        | some (st, r3) => match readUInt 2 r3 with
          | none => none
          | some (w, r4) => if r4 = [] then some ⟨h = 0xFE, a, l, st, w⟩ else none

structure Eof where
  warnings : Nat
  status : Nat
deriving DecidableEq, Repr

/-- `make_eof` -/
def encEof (p41 : Bool) (e : Eof) : Bytes := 0xFE :: (if p41 then leN 2 e.warnings ++ leN 2 e.status else [])

def decEof (b : Bytes) : Option Eof :=
  match b with
  | 0xFE :: r => match readUInt 2 r with
    | none => none
    | some (w, r1) => match readUInt 2 r1 with
      | none => none
      | some (st, r2) => if r2 = [] then some ⟨w, st⟩ else none
  | _ => none

structure Err where
  code : Nat
  state : Bytes      -- 5 bytes of SQLSTATE
  msg : Bytes
deriving DecidableEq, Repr

/-- `make_error` -/
def encErr (p41 : Bool) (e : Err) : Bytes := 0xFF :: (leN 2 e.code ++ (if p41 then 0x23 :: e.state else []) ++ e.msg)

def decErr (b : Bytes) : Option Err :=
  match b with
  | 0xFF :: r => match readUInt 2 r with
    | none => none
    | some (c, r1) => match r1 with
      | 0x23 :: r2 => if 5 ≤ r2.length then some ⟨c, r2.take 5, r2.drop 5⟩ else none
      | _ => none
  | _ => none

structure ColDef where
  schema : Bytes
  table : Bytes
  orgTable : Bytes
  name : Bytes
  orgName : Bytes
  charset : Nat
  length : Nat
  type : Nat
  flags : Nat
  decimals : Nat
  default : Option (Option Bytes)   -- `none`: not a COM_FIELD_LIST reply; `some none`: NULL default; `some (some d)`
deriving DecidableEq, Repr

/-- `make_column_definition_41` -/
def encColDef (c : ColDef) : Bytes :=
  encStr [0x64, 0x65, 0x66] ++ encStr c.schema ++ encStr c.table ++ encStr c.orgTable ++ encStr c.name ++ encStr c.orgName ++
  encLen 0x0C ++ leN 2 c.charset ++ leN 4 c.length ++ leN 1 c.type ++ leN 2 c.flags ++ leN 1 c.decimals ++ leN 2 0 ++
  (match c.default with
   | none => []
   | some none => encLen 0
   | some (some d) => encStr d)

/-- a standard client's reading of a column definition (`fieldList`: the COM_FIELD_LIST form with default values) -/
def decColDef (fieldList : Bool) (b : Bytes) : Option ColDef :=
  match decStrStrict b with
  | none => none
  | some (cat, r0) => if cat ≠ [0x64, 0x65, 0x66] then none else
  match decStrStrict r0 with
  | none => none
  | some (sc, r1) => match decStrStrict r1 with
  | none => none
  | some (tb, r2) => match decStrStrict r2 with
  | none => none
  | some (ot, r3) => match decStrStrict r3 with
  | none => none
  | some (nm, r4) => match decStrStrict r4 with
  | none => none
  | some (on, r5) => match decLen r5 with
  | none => none
  | some (fl, r6) => if fl ≠ 0x0C then none else
  match readUInt 2 r6 with
  | none => none
  | some (cs, r7) => match readUInt 4 r7 with
  | none => none
  | some (ln, r8) => match readUInt 1 r8 with
  | none => none
  | some (ty, r9) => match readUInt 2 r9 with
  | none => none
  | some (fg, r10) => match readUInt 1 r10 with
  | none => none
  | some (dc, r11) => match readUInt 2 r11 with
  | none => none
  | some (_, r12) =>
    if fieldList then
      match decStrStrict r12 with
      | none => none
      | some (d, r13) => if r13 = [] then some ⟨sc, tb, ot, nm, on, cs, ln, ty, fg, dc, some (if d = [] then none else some d)⟩ else none
    else if r12 = [] then some ⟨sc, tb, ot, nm, on, cs, ln, ty, fg, dc, none⟩ else none

end Mimic.Reply
