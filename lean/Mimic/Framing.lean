import Mimic.Extracted.Stream
/-!
Model of `mysql_mimic.stream.MysqlStream` (L1): packet framing.

* write side: `split M s payload` — the packets `MysqlStream.write` produces (`payload[:M]`, … ; a payload whose
  length is a multiple of `M` ends in an empty packet), with sequence ids counting from `s` modulo 256.
* read side: an incremental reader mirroring `MysqlStream.read` over a `StreamReader` whose
  `readexactly(n)` completes exactly when `n` bytes are buffered: first the 4-byte header (the sequence id is
  checked as soon as the header is there), then the payload; payloads of length `M` are accumulated.
-/
namespace Mimic.Framing
abbrev Bytes := List UInt8

/-- `0xFFFFFF`, the constant used in `stream.py` -/
def M : Nat := Mimic.Extracted.Stream.maxPacket

def le3 (b0 b1 b2 : UInt8) : Nat := b0.toNat + 256 * b1.toNat + 65536 * b2.toNat

def enc3 (n : Nat) : Bytes :=
  [UInt8.ofNat (n % 256), UInt8.ofNat (n / 256 % 256), UInt8.ofNat (n / 65536 % 256)]

/-- one wire packet: `uint_3(len) + uint_1(seq) + payload` -/
def encPkt (s : Nat) (chunk : Bytes) : Bytes := enc3 chunk.length ++ (UInt8.ofNat (s % 256) :: chunk)

/-- `MysqlStream.write`: cut `p` into chunks of `m` bytes; stop after the first chunk shorter than `m`. -/
def split (m : Nat) (s : Nat) (p : Bytes) : List (Nat × Bytes) :=
  if _h : 0 < m ∧ m ≤ p.length then (s % 256, p.take m) :: split m (s + 1) (p.drop m) else [(s % 256, p)]
termination_by p.length
decreasing_by simp; omega

/-- `(sequence id, length)` of every packet written for a payload of `len` bytes (arithmetic shadow of `split`,
    used by the driver for payloads too large to materialise; `split_lens` proves they agree) -/
def splitLens (m s len : Nat) : List (Nat × Nat) :=
  if _h : 0 < m ∧ m ≤ len then (s % 256, m) :: splitLens m (s + 1) (len - m) else [(s % 256, len)]
termination_by len
decreasing_by omega

def wire (m s : Nat) (p : Bytes) : Bytes := (split m s p).flatMap (fun qc => encPkt qc.1 qc.2)

/-! ### write buffer (`MysqlStream._buffer`, `write(data, drain)`, `drain()`) -/

/-- writer state: bytes not yet handed to the transport, the sequence counter, and every `transport.write`
    call so far (oldest first) -/
structure WSt where
  pending : Bytes
  seq : Nat
  sent : List Bytes
deriving Repr

/-- `MysqlStream.drain`: hand the buffer to the transport if it is not empty -/
def flush (st : WSt) : WSt :=
  if st.pending.isEmpty then st else { st with sent := st.sent ++ [st.pending], pending := [] }

/-- one iteration of the `while True` loop of `write`: append a packet, flush if asked to or if `B` is reached -/
def putPkt (B : Nat) (drain : Bool) (st : WSt) (qc : Nat × Bytes) : WSt :=
  if drain || decide (B ≤ (st.pending ++ encPkt qc.1 qc.2).length)
  then flush { st with pending := st.pending ++ encPkt qc.1 qc.2 }
  else { st with pending := st.pending ++ encPkt qc.1 qc.2 }

/-- `MysqlStream.write(payload, drain)` -/
def wwrite (m B : Nat) (st : WSt) (payload : Bytes) (drain : Bool) : WSt :=
  { ((split m st.seq payload).foldl (putPkt B drain) st) with
    seq := (st.seq + (split m st.seq payload).length) % 256 }

/-- reader state -/
structure St where
  buf : Bytes            -- bytes received and not yet consumed (`StreamReader` buffer)
  acc : Bytes            -- `data` accumulated from full-size packets
  expect : Nat           -- value of the sequence counter
  hdr : Option Nat       -- `some len`: header consumed, waiting for `len` payload bytes
  dead : Bool            -- a sequence error was raised (the connection ends)
deriving Repr

inductive Ev
  | msg (payload : Bytes)
  | seqError (got expected : Nat)
deriving Repr, DecidableEq

def init (s : Nat) : St := { buf := [], acc := [], expect := s % 256, hdr := none, dead := false }

def St.app (st : St) (y : Bytes) : St := { st with buf := st.buf ++ y }

/-- one micro-step of `read()`: consume a header or a payload if it is completely buffered -/
def step1 (m : Nat) (st : St) : Option (St × List Ev) :=
  if st.dead then none else
  match st.hdr with
  | none =>
    match st.buf with
    | b0 :: b1 :: b2 :: s :: rest =>
      if s.toNat ≠ st.expect then
        some ({ st with buf := rest, dead := true }, [Ev.seqError s.toNat st.expect])
      else
        some ({ st with buf := rest, hdr := some (le3 b0 b1 b2), expect := (st.expect + 1) % 256 }, [])
    | _ => none
  | some len =>
    if len ≤ st.buf.length then
      if len = m then
        some ({ st with buf := st.buf.drop len, acc := st.acc ++ st.buf.take len, hdr := none }, [])
      else
        some ({ st with buf := st.buf.drop len, acc := [], hdr := none }, [Ev.msg (st.acc ++ st.buf.take len)])
    else none

/-- termination measure -/
def St.meas (st : St) : Nat := 2 * st.buf.length + (if st.hdr.isSome then 1 else 0)

theorem step1_lt {m : Nat} {st st' : St} {e} (h : step1 m st = some (st', e)) : st'.meas < st.meas := by
  unfold step1 at h
  split at h
  · simp at h
  · split at h
    · rename_i hh
      split at h
      · rename_i b0 b1 b2 s rest hb
        split at h <;> (simp at h; obtain ⟨rfl, _⟩ := h; simp [St.meas, hh, hb]; try omega)
      · simp at h
    · rename_i len hh
      split at h
      · rename_i hle
        split at h <;> (simp at h; obtain ⟨rfl, _⟩ := h; simp [St.meas, hh]; omega)
      · simp at h

/-- consume everything that is completely buffered -/
def drain (m : Nat) (st : St) : St × List Ev :=
  match h : step1 m st with
  | none => (st, [])
  | some (st', e) => let r := drain m st'; (r.1, e ++ r.2)
termination_by st.meas
decreasing_by exact step1_lt h

/-- a network read delivered `chunk` -/
def feed (m : Nat) (st : St) (chunk : Bytes) : St × List Ev := drain m (st.app chunk)

def feedAll (m : Nat) (st : St) : List Bytes → St × List Ev
  | [] => (st, [])
  | c :: cs => ((feedAll m (feed m st c).1 cs).1, (feed m st c).2 ++ (feedAll m (feed m st c).1 cs).2)

end Mimic.Framing
