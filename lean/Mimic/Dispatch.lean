/-!
L6 — statement dispatch (`Session.handle_query`, the middleware chain, `find_dbs`, database tracking).

A statement is an abstract record of what the parser found; the chain is the *ordered list of middleware names*
extracted from `Session.__init__` on every run.  A middleware either intercepts the statement (the library answers
it; nothing further down the chain — in particular not the application — sees it) or passes it on.
-/
namespace Mimic.Dispatch

inductive Kind
  | set | use | kill | show | describeTable | describeSelect | begin | commit | rollback
  | select     -- SELECT
  | setop      -- UNION / EXCEPT / INTERSECT
  | other      -- DML, DDL, anything else
deriving DecidableEq, Repr

structure Stmt where
  kind : Kind
  static : Bool               -- SELECT with nothing but expressions / LIMIT / hints (no FROM, WHERE, …)
  dbs : List (Option String)  -- database qualifier of every table reached by scope traversal (queries only)
  useDb : String              -- argument of USE
  tag : Nat                   -- which statement of the client's text this is
  fails : Bool                -- whoever handles it raises (unknown variable, application error, …)
deriving Repr

inductive Mw
  | setVar | replaceVars | set | static | use | kill | show | describe | begin | commit | rollback | infoSchema
deriving DecidableEq, Repr

def Mw.ofName : String → Option Mw
  | "_set_var_middleware" => some .setVar
  | "_replace_variables_middleware" => some .replaceVars
  | "_set_middleware" => some .set
  | "_static_query_middleware" => some .static
  | "_use_middleware" => some .use
  | "_kill_middleware" => some .kill
  | "_show_middleware" => some .show
  | "_describe_middleware" => some .describe
  | "_begin_middleware" => some .begin
  | "_commit_middleware" => some .commit
  | "_rollback_middleware" => some .rollback
  | "_info_schema_middleware" => some .infoSchema
  | _ => none

/-- ASCII lower-casing of a database name (`db.lower() in INFO_SCHEMA`) -/
def lower (s : String) : String := String.ofList (s.toList.map Char.toLower)

/-- `_info_schema_middleware`: tables without qualifier belong to the current database; intercept iff there is at
    least one table and all of them live in catalog databases -/
def catalogOnly (cat : List String) (cur : Option String) (s : Stmt) : Bool :=
  let isQuery := s.kind = .select ∨ s.kind = .setop
  let resolved := s.dbs.map (fun d => match d with | some x => x | none => cur.getD "")
  isQuery && !resolved.isEmpty && resolved.all (fun d => cat.contains (lower d))

def intercepts (cat : List String) (cur : Option String) (m : Mw) (s : Stmt) : Bool :=
  match m with
  | .setVar => false        -- wraps the rest of the chain, never answers by itself
  | .replaceVars => false   -- rewrites the expression, never answers by itself
  | .set => s.kind = .set
  | .static => s.kind = .select && s.static
  | .use => s.kind = .use
  | .kill => s.kind = .kill
  | .show => s.kind = .show
  | .describe => s.kind = .describeTable     -- DESCRIBE SELECT / EXPLAIN SELECT passes
  | .begin => s.kind = .begin
  | .commit => s.kind = .commit
  | .rollback => s.kind = .rollback
  | .infoSchema => catalogOnly cat cur s

/-- who answers: the first middleware of the chain that intercepts, else the application -/
def route (order : List Mw) (cat : List String) (cur : Option String) (s : Stmt) : Option Mw :=
  order.find? (fun m => intercepts cat cur m s)

/-- one entry of the session's history for a client text: which statement, the database current at that moment,
    who answered -/
structure Entry where
  tag : Nat
  db : Option String
  who : Option Mw    -- `none` = the application
deriving Repr, DecidableEq

structure Out where
  trace : List Entry          -- one entry per statement handled, in order
  database : Option String    -- current database afterwards
  failed : Bool               -- a handler (library or application) raised: the rest of the text is not executed
deriving Repr

/-- `handle_query`: every parsed statement through the chain, in textual order, until one raises -/
def handleQuery (order : List Mw) (cat : List String) (db : Option String) : List Stmt → Out
  | [] => ⟨[], db, false⟩
  | s :: rest =>
    if s.fails then ⟨[⟨s.tag, db, route order cat db s⟩], db, true⟩
    else
      let r := handleQuery order cat (if route order cat db s = some .use then some s.useDb else db) rest
      ⟨⟨s.tag, db, route order cat db s⟩ :: r.trace, r.database, r.failed⟩

/-- the application's call log: (statement, database it observes) -/
def appCalls (t : List Entry) : List (Nat × Option String) := (t.filter (fun e => e.who.isNone)).map (fun e => (e.tag, e.db))

/-- who produced the result the client receives: the last statement's handler -/
def answeredBy (t : List Entry) : Option Entry := t.getLast?

/-! ### the client's database selections -/

inductive Sel
  | handshake (db : Option String)
  | initDb (db : String)
  | changeUser (db : Option String)
  | text (stmts : List Stmt)      -- COM_QUERY / COM_STMT_EXECUTE with these statements
deriving Repr

/-- connection-level history: database current after every event, traces of every text (oldest first) -/
def connRun (order : List Mw) (cat : List String) (db : Option String) : List Sel → Option String × List (List Entry)
  | [] => (db, [])
  | .handshake d :: rest => connRun order cat d rest
  | .initDb d :: rest => connRun order cat (some d) rest
  | .changeUser d :: rest => connRun order cat d rest
  | .text stmts :: rest =>
    let r := handleQuery order cat db stmts
    let q := connRun order cat r.database rest
    (q.1, r.trace :: q.2)

end Mimic.Dispatch
