/-!
SQL LIKE (the specification) and the regular expression `like_to_regex` / sqlglot's `_like` build for it, applied
with `fullmatch` and DOTALL.
-/
namespace Mimic.Like

/-- regex atoms the translation produces -/
inductive A | chr (c : Char) | dot | dotStar
deriving DecidableEq, Repr

/-- translation: `%` ↦ `.*`, `_` ↦ `.`, anything else ↦ the escaped literal character -/
def tr : List Char → List A
  | [] => []
  | c :: cs => (if c = '%' then A.dotStar else if c = '_' then A.dot else A.chr c) :: tr cs

/-- denotational semantics of a concatenation of atoms under `fullmatch` (DOTALL) -/
inductive Matches : List A → List Char → Prop
  | nil : Matches [] []
  | chr {c as s} : Matches as s → Matches (A.chr c :: as) (c :: s)
  | dot {x as s} : Matches as s → Matches (A.dot :: as) (x :: s)
  | star0 {as s} : Matches as s → Matches (A.dotStar :: as) s
  | starS {x as s} : Matches (A.dotStar :: as) s → Matches (A.dotStar :: as) (x :: s)

/-- SQL LIKE: whole-string match, `%` any run of characters, `_` exactly one character -/
def like : List Char → List Char → Bool
  | [], s => s.isEmpty
  | p :: ps, s =>
    if p = '%' then
      like ps s || (match s with | [] => false | _ :: xs => like (p :: ps) xs)
    else match s with
      | [] => false
      | x :: xs => (p = '_' || p = x) && like ps xs
termination_by p s => (p.length, s.length)

def likeS (pat s : String) : Bool := like pat.toList s.toList

end Mimic.Like
