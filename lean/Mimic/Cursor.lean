/-!
Model of prepared-statement cursors (`Connection.prepared_stmts`, `handle_stmt_execute` with
`CURSOR_TYPE_READ_ONLY`, `handle_stmt_fetch`, `handle_stmt_reset`, `handle_stmt_close`).

A row is an opaque identifier (`Nat`); its encoding is the subject of C05.  A row source is the list of rows it
will still yield plus a flag saying that it raises after the last of them (`boom`).
-/
namespace Mimic.Cursor

structure Src where
  rows : List Nat
  boom : Bool := false
deriving Repr, DecidableEq

structure Stmt where
  cursor : Option Src := none
deriving Repr, DecidableEq

/-- registry of prepared statements and the id the next COM_STMT_PREPARE gets -/
structure Reg where
  stmts : Nat → Option Stmt
  next : Nat

def Reg.empty : Reg := { stmts := fun _ => none, next := 0 }

def upd (f : Nat → Option Stmt) (k : Nat) (v : Option Stmt) : Nat → Option Stmt :=
  fun x => if x = k then v else f x

/-- status flag of the terminator of a fetch / cursor-opening execute -/
inductive Flag | cursorExists | lastRowSent
deriving Repr, DecidableEq

/-- what the client sees for one command -/
inductive Out
  | ok                                   -- OK (reset) / prepare-OK (id reported separately)
  | none                                 -- no reply (close)
  | rows (rs : List Nat) (f : Flag)      -- fetch: rows then terminator with flag
  | rowsErr (rs : List Nat)              -- rows then ERR (source raised)
  | opened                               -- execute with cursor: metadata + terminator(CURSOR_EXISTS)
  | result (rs : List Nat)               -- execute without cursor: complete result set
  | resultErr (rs : List Nat)
  | err
deriving Repr, DecidableEq

/-- `handle_stmt_fetch` on a source: at most `n` rows; exhaustion is flagged iff the fetch could not be filled -/
def fetchSrc (s : Src) (n : Nat) : Out × Src :=
  if n ≤ s.rows.length then (.rows (s.rows.take n) .cursorExists, { s with rows := s.rows.drop n })
  else if s.boom then (.rowsErr s.rows, { rows := [], boom := false })
  else (.rows s.rows .lastRowSent, { rows := [], boom := false })

inductive Cmd
  | prepare
  | execute (id : Nat) (cursor : Bool) (res : Option Src)   -- `none`: the application raised / returned no result set
  | fetch (id n : Nat)
  | reset (id : Nat)
  | close (id : Nat)
deriving Repr

def step (r : Reg) : Cmd → Reg × Out
  | .prepare => ({ stmts := upd r.stmts r.next (some {}), next := (r.next + 1) % 4294967296 }, .ok)
  | .execute id cur res =>
    match r.stmts id with
    | none => (r, .err)
    | some _ =>
      match res with
      | none => ({ r with stmts := upd r.stmts id (some { cursor := none }) }, .err)
      | some src =>
        if cur then ({ r with stmts := upd r.stmts id (some { cursor := some src }) }, .opened)
        else ({ r with stmts := upd r.stmts id (some { cursor := none }) },
              if src.boom then .resultErr src.rows else .result src.rows)
  | .fetch id n =>
    match r.stmts id with
    | none => (r, .err)
    | some st =>
      match st.cursor with
      | none => (r, .err)
      | some src =>
        let o := fetchSrc src n
        ({ r with stmts := upd r.stmts id (some { cursor := some o.2 }) }, o.1)
  | .reset id =>
    match r.stmts id with
    | none => (r, .err)
    | some _ => ({ r with stmts := upd r.stmts id (some { cursor := none }) }, .ok)
  | .close id => ({ r with stmts := upd r.stmts id none }, .none)

def run (r : Reg) : List Cmd → Reg × List Out
  | [] => (r, [])
  | c :: cs => let s := step r c; let t := run s.1 cs; (t.1, s.2 :: t.2)

/-- successive fetches of sizes `ns` on one source -/
def fetches (s : Src) : List Nat → List Out × Src
  | [] => ([], s)
  | n :: ns => let o := fetchSrc s n; let t := fetches o.2 ns; (o.1 :: t.1, t.2)

def Out.rowsOf : Out → List Nat
  | .rows rs _ => rs
  | .rowsErr rs => rs
  | .result rs => rs
  | .resultErr rs => rs
  | _ => []

end Mimic.Cursor
