/-! Executable SHA-1 (FIPS 180-4), used as the instance of the abstract 20-byte hash `H` of the auth model.
    It is compared with `hashlib.sha1` by the correspondence check; the theorems never unfold it. -/
namespace Mimic.Sha1
abbrev Bytes := List UInt8

def rotl (x : UInt32) (n : UInt32) : UInt32 := (x <<< n) ||| (x >>> (32 - n))

def be32 (b0 b1 b2 b3 : UInt8) : UInt32 :=
  (b0.toUInt32 <<< 24) ||| (b1.toUInt32 <<< 16) ||| (b2.toUInt32 <<< 8) ||| b3.toUInt32

def toBE32 (x : UInt32) : Bytes := [(x >>> 24).toUInt8, (x >>> 16).toUInt8, (x >>> 8).toUInt8, x.toUInt8]

def pad (msg : Bytes) : Bytes :=
  msg ++ [(0x80 : UInt8)] ++ List.replicate ((119 - msg.length % 64) % 64) (0 : UInt8) ++
    (List.range 8).map (fun i => (((msg.length * 8) >>> (8 * (7 - i))) % 256).toUInt8)

def words : Bytes → List UInt32
  | b0 :: b1 :: b2 :: b3 :: r => be32 b0 b1 b2 b3 :: words r
  | _ => []

def schedule (w : Array UInt32) : Array UInt32 := Id.run do
  let mut w := w
  for i in [16:80] do
    w := w.push (rotl (w[i-3]! ^^^ w[i-8]! ^^^ w[i-14]! ^^^ w[i-16]!) 1)
  return w

def block (st : UInt32 × UInt32 × UInt32 × UInt32 × UInt32) (blk : List UInt32) :
    UInt32 × UInt32 × UInt32 × UInt32 × UInt32 := Id.run do
  let w := schedule blk.toArray
  let (h0, h1, h2, h3, h4) := st
  let mut a := h0; let mut b := h1; let mut c := h2; let mut d := h3; let mut e := h4
  for i in [0:80] do
    let (f, k) :=
      if i < 20 then ((b &&& c) ||| ((~~~ b) &&& d), (0x5A827999 : UInt32))
      else if i < 40 then (b ^^^ c ^^^ d, 0x6ED9EBA1)
      else if i < 60 then ((b &&& c) ||| (b &&& d) ||| (c &&& d), 0x8F1BBCDC)
      else (b ^^^ c ^^^ d, 0xCA62C1D6)
    let t := rotl a 5 + f + e + k + w[i]!
    e := d; d := c; c := rotl b 30; b := a; a := t
  return (h0 + a, h1 + b, h2 + c, h3 + d, h4 + e)

def chunks16 : List UInt32 → List (List UInt32)
  | [] => []
  | l => if l.length ≤ 16 then [l] else l.take 16 :: chunks16 (l.drop 16)
termination_by l => l.length
decreasing_by simp_wf; omega

def sha1 (msg : Bytes) : Bytes :=
  let st := (chunks16 (words (pad msg))).foldl block
    (0x67452301, 0xEFCDAB89, 0x98BADCFE, 0x10325476, 0xC3D2E1F0)
  let (a, b, c, d, e) := st
  toBE32 a ++ toBE32 b ++ toBE32 c ++ toBE32 d ++ toBE32 e

end Mimic.Sha1
