import Mimic.Control
import Mimic.Framing
import Mimic.Cursor
import Mimic.ResultsTables
import Mimic.Params
import Mimic.Extracted.Params
import Mimic.Auth
import Mimic.Sha1
import Mimic.Extracted.Auth
import Mimic.Script
import Mimic.Packets
import Mimic.Stream
import Mimic.Extracted.Stream
import Mimic.Dispatch
import Mimic.Variables
import Mimic.Extracted.Variables
import Mimic.Charset
import Mimic.Catalog
import Mimic.Reply
import Mimic.Extracted.Catalog
import Mimic.Extracted.Session
import Mimic.Extracted.Charset
/-! Line-protocol driver pieces: one `handle` per domain. Unknown input is answered `bad-op`, never defaulted. -/
namespace Mimic.Drv

def words (s : String) : List String := (s.splitOn " ").filter (· ≠ "")

def hexVal (c : Char) : Option Nat :=
  if '0' ≤ c ∧ c ≤ '9' then some (c.toNat - '0'.toNat)
  else if 'a' ≤ c ∧ c ≤ 'f' then some (c.toNat - 'a'.toNat + 10)
  else none

def unhexAux : List Char → List UInt8 → Option (List UInt8)
  | [], acc => some acc.reverse
  | [_], _ => none
  | a :: b :: rest, acc => match hexVal a, hexVal b with
    | some x, some y => unhexAux rest (UInt8.ofNat (16 * x + y) :: acc)
    | _, _ => none

/-- `-` is the empty byte string -/
def unhex (s : String) : Option (List UInt8) := if s = "-" then some [] else unhexAux s.toList []

def hexDigit (n : Nat) : Char := if n < 10 then Char.ofNat (n + 48) else Char.ofNat (n + 87)

def hex (b : List UInt8) : String :=
  if b.isEmpty then "-" else String.ofList (b.flatMap (fun x => [hexDigit (x.toNat / 16), hexDigit (x.toNat % 16)]))

structure St where
  ctl : Mimic.Control.Ctl := Mimic.Control.mk 0
  frmM : Nat := Mimic.Framing.M
  frm : Mimic.Framing.St := Mimic.Framing.init 0
  wr : Mimic.Framing.WSt := { pending := [], seq := 0, sent := [] }
  wrB : Nat := 32768
  cur : Mimic.Cursor.Reg := Mimic.Cursor.Reg.empty
  authPlugins : List Mimic.Auth.Plugin := []
  authUsers : List (String × Mimic.Auth.User) := []
  conn : Mimic.Conn.S := Mimic.Conn.init
  vars : Mimic.Variables.Store := []
  catalog : List Mimic.Catalog.Col := []

def ctl (st : St) : List String → St × String
  | ["new", sid] => match sid.toNat? with
      | some n => ({ st with ctl := Mimic.Control.mk n }, "ok")
      | none => (st, "bad-op")
  | ["newn", n, bits, sid] => match n.toNat?, bits.toNat?, sid.toNat? with
      | some n, some b, some sid =>
          ({ st with ctl := Mimic.Control.mkN n b Mimic.Extracted.Control.maxServerId sid }, "ok")
      | _, _, _ => (st, "bad-op")
  | ["add"] => match Mimic.Control.add st.ctl with
      | some (id, c') => ({ st with ctl := c' }, toString id)
      | none => (st, "full")
  | ["rm", id] => match id.toNat? with
      | some n => ({ st with ctl := Mimic.Control.remove st.ctl n }, "ok")
      | none => (st, "bad-op")
  | ["has", id] => match id.toNat? with
      | some n => (st, if Mimic.Control.finds st.ctl n then "1" else "0")
      | none => (st, "bad-op")
  | ["len"] => (st, toString st.ctl.live.length)
  | ["live"] => (st, " ".intercalate ((st.ctl.live.mergeSort (· ≤ ·)).map toString))
  | _ => (st, "bad-op")

def showEv : Mimic.Framing.Ev → String
  | .msg p => "msg:" ++ hex p
  | .seqError g e => s!"seqerr:{g}:{e}"

def showEvs (es : List Mimic.Framing.Ev) : String :=
  if es.isEmpty then "-" else ",".intercalate (es.map showEv)

def frm (st : St) : List String → St × String
  | ["m", m] => match m.toNat? with
      | some n => ({ st with frmM := n }, "ok")
      | none => (st, "bad-op")
  | ["mdefault"] => ({ st with frmM := Mimic.Framing.M }, "ok")
  | ["reset", e] => match e.toNat? with
      | some n => ({ st with frm := Mimic.Framing.init n }, "ok")
      | none => (st, "bad-op")
  | ["feed", h] => match unhex h with
      | some b => let r := Mimic.Framing.feed st.frmM st.frm b; ({ st with frm := r.1 }, showEvs r.2)
      | none => (st, "bad-op")
  | ["state"] => (st, s!"{st.frm.buf.length} {st.frm.acc.length} {st.frm.expect} {st.frm.hdr} {st.frm.dead}")
  | ["split", s, h] => match s.toNat?, unhex h with
      | some s, some b =>
          (st, ",".intercalate ((Mimic.Framing.split st.frmM s b).map (fun qc => s!"{qc.1}:{hex qc.2}")))
      | _, _ => (st, "bad-op")
  | ["splitlens", s, len] => match s.toNat?, len.toNat? with
      | some s, some len =>
          (st, ",".intercalate ((Mimic.Framing.splitLens st.frmM s len).map (fun ql => s!"{ql.1}:{ql.2}")))
      | _, _ => (st, "bad-op")
  | _ => (st, "bad-op")

/-- transport writes are reported as `len:first-bytes..last-bytes` to keep lines short; the harness applies the
    same canonicalisation to what the real transport received -/
def showChunk (b : List UInt8) : String :=
  s!"{b.length}:{hex (b.take 12)}:{hex (b.drop (b.length - 6))}"

def wr (st : St) : List String → St × String
  | ["reset", q, b] => match q.toNat?, b.toNat? with
      | some q, some b => ({ st with wr := { pending := [], seq := q % 256, sent := [] }, wrB := b }, "ok")
      | _, _ => (st, "bad-op")
  | ["write", d, h] => match unhex h with
      | some p =>
          let before := st.wr.sent.length
          let w := Mimic.Framing.wwrite st.frmM st.wrB st.wr p (d == "1")
          ({ st with wr := w },
           s!"{w.pending.length} {w.seq} " ++ ",".intercalate ((w.sent.drop before).map showChunk))
      | none => (st, "bad-op")
  | ["zeros", d, n] => match n.toNat? with   -- a payload of n zero bytes (large sizes without a hex line)
      | some n =>
          let before := st.wr.sent.length
          let w := Mimic.Framing.wwrite st.frmM st.wrB st.wr (List.replicate n 0) (d == "1")
          ({ st with wr := w },
           s!"{w.pending.length} {w.seq} " ++ ",".intercalate ((w.sent.drop before).map showChunk))
      | none => (st, "bad-op")
  | ["drain"] =>
      let before := st.wr.sent.length
      let w := Mimic.Framing.flush st.wr
      ({ st with wr := w }, s!"{w.pending.length} {w.seq} " ++ ",".intercalate ((w.sent.drop before).map showChunk))
  | _ => (st, "bad-op")

def showNats (l : List Nat) : String := ",".intercalate (l.map toString)

def showOut : Mimic.Cursor.Out → String
  | .ok => "ok"
  | .none => "none"
  | .rows rs .cursorExists => "rows:" ++ showNats rs ++ ":CE"
  | .rows rs .lastRowSent => "rows:" ++ showNats rs ++ ":LR"
  | .rowsErr [] => "err"        -- on the wire: no row, one ERR
  | .rowsErr rs => "rowserr:" ++ showNats rs
  | .opened => "opened"
  | .result rs => "result:" ++ showNats rs
  | .resultErr rs => "resulterr:" ++ showNats rs
  | .err => "err"

def curStep (st : St) (c : Mimic.Cursor.Cmd) : St × String :=
  let r := Mimic.Cursor.step st.cur c
  ({ st with cur := r.1 }, showOut r.2)

def cur (st : St) : List String → St × String
  | ["reset"] => ({ st with cur := Mimic.Cursor.Reg.empty }, "ok")
  | ["prepare"] => let id := st.cur.next; let r := curStep st .prepare; (r.1, toString id)
  | ["exec", id, c, "fail"] => match id.toNat? with
      | some id => curStep st (.execute id (c == "1") none)
      | none => (st, "bad-op")
  | ["exec", id, c, base, n, boom] => match id.toNat?, base.toNat?, n.toNat? with
      | some id, some b, some n =>
          curStep st (.execute id (c == "1") (some { rows := (List.range n).map (· + b), boom := boom == "1" }))
      | _, _, _ => (st, "bad-op")
  | ["fetch", id, n] => match id.toNat?, n.toNat? with
      | some id, some n => curStep st (.fetch id n)
      | _, _ => (st, "bad-op")
  | ["rst", id] => match id.toNat? with
      | some id => curStep st (.reset id)
      | none => (st, "bad-op")
  | ["close", id] => match id.toNat? with
      | some id => curStep st (.close id)
      | none => (st, "bad-op")
  | _ => (st, "bad-op")

/-! results -/

def parseInt (s : String) : Option Int := s.toInt?

def parseVal (s : String) : Option Mimic.Results.Val :=
  match s.toList with
  | ['N'] => some .null
  | 'I' :: r => (parseInt (String.ofList r)).map .int
  | 'S' :: r => (unhex (String.ofList r)).map .str
  | 'F' :: r => match (String.ofList r).splitOn "/" with
      | [a, b, c] => match unhex a, unhex b, unhex c with
        | some a, some b, some c => some (.flt a b c)
        | _, _, _ => none
      | _ => none
  | 'D' :: r => match ((String.ofList r).splitOn "/").map String.toNat? with
      | [some y, some m, some d] => some (.date y m d)
      | _ => none
  | 'T' :: r => match ((String.ofList r).splitOn "/").map String.toNat? with
      | [some y, some mo, some d, some h, some mi, some s, some us] => some (.datetime y mo d h mi s us)
      | _ => none
  | 'U' :: r => (parseInt (String.ofList r)).map .dur
  | _ => none

def optAllL {α : Type} : List (Option α) → Option (List α)
  | [] => some []
  | none :: _ => none
  | some a :: rest => (optAllL rest).map (a :: ·)

def res (_st : St) : List String → String
  | "bin" :: n :: rest => match n.toNat? with
      | some n => match optAllL ((rest.take n).map String.toNat?), optAllL ((rest.drop n).map parseVal) with
        | some codes, some vals => match Mimic.Results.binRow (codes.map Mimic.Results.binEnc) vals with
          | some b => hex b
          | none => "raise"
        | _, _ => "bad-op"
      | none => "bad-op"
  | "text" :: n :: rest => match n.toNat? with
      | some n => match optAllL ((rest.take n).map String.toNat?), optAllL ((rest.drop n).map parseVal) with
        | some codes, some vals => match Mimic.Results.textRow (codes.map Mimic.Results.textEnc) vals with
          | some b => hex b
          | none => "raise"
        | _, _ => "bad-op"
      | none => "bad-op"
  | ["infer", py] => toString (Mimic.Results.inferCode py)
  | "peek" :: todo :: ncols :: cells => match ncols.toNat? with
      | some nc =>
          if nc = 0 then "bad-op" else
          let td := if todo = "-" then some [] else optAllL ((todo.splitOn ",").map String.toNat?)
          match td with
          | some td =>
            let vals : List Mimic.Results.Val := cells.map (fun c => if c = "N" then .null else .int 0)
            let rec chunk (fuel : Nat) (l : List Mimic.Results.Val) : List (List Mimic.Results.Val) :=
              match fuel with
              | 0 => []
              | f + 1 => if l.isEmpty then [] else l.take nc :: chunk f (l.drop nc)
            let rows := chunk (vals.length + 1) vals
            let p := Mimic.Results.peek td [] rows
            s!"{p.1.length} {showNats p.2.2} {(Mimic.Results.afterInfer td rows).length}"
          | none => "bad-op"
      | none => "bad-op"
  | _ => "bad-op"

/-! params -/

def utf8Dec (b : List UInt8) : Option (List Char) := (String.fromUTF8? (ByteArray.mk b.toArray)).map String.toList

def utf8Hex (s : List Char) : String := hex (String.ofList s).toUTF8.data.toList

def showPVal : Mimic.Params.PVal → String
  | .null => "N"
  | .int z => s!"I{z}"
  | .str s => "S" ++ utf8Hex s
  | .flt b => "F" ++ hex b

def showAttrs (a : List (List Char × Mimic.Params.PVal)) : String :=
  if a.isEmpty then "-" else ";".intercalate (a.map (fun kv => utf8Hex kv.1 ++ ":" ++ showPVal kv.2))

def fltMark (b : List UInt8) : List Char := ("<flt:" ++ hex b ++ ">").toList

def parseBuffers (s : String) : Option (Nat → Option (List UInt8)) :=
  if s = "-" then some (fun _ => none) else
  let parts := (s.splitOn ",").map (fun p => match p.splitOn "=" with
    | [i, h] => match i.toNat?, unhex h with
      | some i, some b => some (i, b)
      | _, _ => none
    | _ => none)
  match optAllL parts with
  | some l => some (fun i => (l.find? (fun kv => kv.1 == i)).map Prod.snd)
  | none => none

def par (_st : St) : List String → String
  | ["query", qa, h] => match unhex h with
      | some p => match Mimic.Params.parseQuery Mimic.Extracted.Params.validColumnTypes utf8Dec (qa == "1") p with
        | some (sql, attrs) => s!"sql={utf8Hex sql} attrs={showAttrs attrs}"
        | none => "err"
      | none => "bad-op"
  | ["exec", qa, np, sqlh, bufs, h] => match np.toNat?, unhex sqlh, parseBuffers bufs, unhex h with
      | some np, some sqlb, some bf, some p => match utf8Dec sqlb with
        | some sql =>
          match Mimic.Params.parseExecute Mimic.Extracted.Params.validColumnTypes utf8Dec fltMark (qa == "1")
              { sql := sql, numParams := np, buffers := bf } p with
          | some (sql', attrs, cur) => s!"sql={utf8Hex sql'} attrs={showAttrs attrs} cursor={if cur then 1 else 0}"
          | none => "err"
        | none => "bad-op"
      | _, _, _, _ => "bad-op"
  | ["count", sqlh] => match unhex sqlh with
      | some b => match utf8Dec b with
        | some sql => toString (Mimic.Params.phCount 0 sql)
        | none => "bad-op"
      | none => "bad-op"
  | _ => "bad-op"

/-! auth -/

def unhexStr (s : String) : Option String := (unhex s).bind utf8Dec |>.map String.ofList
def optStr (s : String) : Option (Option String) := if s = "-" then some none else (unhexStr s).map some
def optChars (s : String) : Option (Option (List Char)) := if s = "-" then some none else (unhexStr s).map (fun x => some x.toList)

def parseKind (s : String) : Option Mimic.Auth.Kind :=
  if s = "native" then some .native
  else if s = "nologin" then some .nologin
  else if s = "custom2" then some .custom2
  else if s = "trust" then some .trust
  else if s.startsWith "clear:" then
    let body := (s.drop 6).toString
    if body = "" then some (.clear []) else
    let pairs := (body.splitOn ";").map (fun p => match p.splitOn "=" with
      | [u, pw] => match unhexStr u, unhex pw with
        | some u, some pw => some (u, pw)
        | _, _ => none
      | _ => none)
    (optAllL pairs).map .clear
  else none

def showAOut : Mimic.Auth.AOut → String
  | .switchReq p d => s!"switch:{p}:{hex d}"
  | .more d => s!"more:{hex d}"
  | .ok => "ok"
  | .errUnknownUser => "errU"
  | .errDenied => "errD"

def showARes : Mimic.Auth.ARes → String
  | .authenticated n => "auth:" ++ utf8Hex n.toList
  | .failed => "failed"
  | .raisedExc => "raised"
  | .waiting => "waiting"

def auth (st : St) : List String → St × String
  | ["reset"] => ({ st with authPlugins := [], authUsers := [] }, "ok")
  | ["plugin", name, cn, kind] => match optStr cn, parseKind kind with
      | some cn, some k => ({ st with authPlugins := st.authPlugins ++ [{ name := name, clientName := cn, kind := k }] }, "ok")
      | _, _ => (st, "bad-op")
  | ["user", key, name, a, o, pl] => match unhexStr key, unhexStr name, optChars a, optChars o with
      | some k, some n, some a, some o =>
          ({ st with authUsers := st.authUsers ++ [(k, { name := n, auth := a, old := o, plugin := if pl = "-" then none else some pl })] }, "ok")
      | _, _, _, _ => (st, "bad-op")
  | ["sha1", h] => match unhex h with
      | some b => (st, hex (Mimic.Sha1.sha1 b))
      | none => (st, "bad-op")
  | ["verify", stored, scr, nonce] => match optChars stored, unhex scr, unhex nonce with
      | some stc, some scr, some nonce => (st, if Mimic.Auth.verifyScramble Mimic.Sha1.sha1 stc scr nonce then "1" else "0")
      | _, _, _ => (st, "bad-op")
  | ["go", server, user, resp, cp, hsd, hsp, draws, replies] =>
      match unhexStr user, unhex resp, optStr cp, (if hsd = "none" then some none else (unhex hsd).map some),
            optAllL ((draws.splitOn ",").map String.toNat?),
            (if replies = "none" then some [] else optAllL ((replies.splitOn ";").map unhex)) with
      | some user, some resp, some cp, some hsd, some draws, some replies =>
        let env : Mimic.Auth.Env := { plugins := st.authPlugins, users := fun n => (st.authUsers.find? (fun kv => kv.1 == n)).map Prod.snd }
        let H := Mimic.Sha1.sha1
        let α := Mimic.Extracted.Auth.safeNonceChars
        if server = "1" then
          match st.authPlugins.head? with
          | none => (st, "bad-op")
          | some dp =>
            let s0 := Mimic.Auth.start H α dp none (draws.take 20)
            let rest := if s0.2.2 then draws.drop 20 else draws
            match s0.1 with
            | .more data =>
              let r := Mimic.Auth.authenticate H α env (some (dp, s0.2.1)) user resp cp (some data) dp.name (rest.take 20) replies
              (st, s!"greet:{hex data} " ++ ",".intercalate (r.1.map showAOut) ++ " " ++ showARes r.2)
            | _ => (st, "greet-failed")
        else
          let r := Mimic.Auth.authenticate H α env none user resp cp hsd hsp (draws.take 20) replies
          (st, ",".intercalate (r.1.map showAOut) ++ " " ++ showARes r.2)
      | _, _, _, _, _, _ => (st, "bad-op")
  | _ => (st, "bad-op")

/-! connection machine -/

open Mimic.Conn Mimic.Script in
def showErrC : ErrC → String
  | .generic => "generic" | .mysql => "mysql" | .queryKilled => "qkilled" | .sessionKilled => "skilled"
  | .handshake => "handshake" | .accessDenied => "denied" | .unknownUser => "unknown"

open Mimic.Conn in
def showPK : PK → String
  | .ok => "ok" | .err c => "err:" ++ showErrC c | .colCount n => s!"cc{n}" | .colDef => "cd" | .eofMeta => "eofm"
  | .term f => s!"t{f}" | .row id => s!"r{id}" | .prepOk n => s!"p{n}" | .greeting => "greet"
  | .authSwitch => "switch" | .authMore => "more"

open Mimic.Conn in
def showExc : Option Exc → String
  | none => "-" | some .mysqlError => "mysql" | some .authFailed => "authfailed" | some .generic => "generic"
  | some .cancelled => "cancelled" | some .connLost => "lost"

open Mimic.Conn in
def showPhase : Phase → String
  | .greeting => "greeting" | .idle => "idle" | .closed => "closed"
  | .parked _ .drain _ _ => "parked-drain" | .parked _ .future _ _ => "parked-future"

open Mimic.Script in
def parseRows (s : String) : Option (List RStep) :=
  if s = "-" then some [] else
  optAllL ((s.splitOn ",").map (fun t => match t.toList with
    | 'r' :: d => (String.ofList d).toNat?.map (fun n => RStep.row n false)
    | 'R' :: d => (String.ofList d).toNat?.map (fun n => RStep.row n true)
    | ['b'] => some (RStep.boom false)
    | ['B'] => some (RStep.boom true)
    | _ => none))

open Mimic.Script Mimic.Conn in
def parsePlan : List String → Option Plan
  | [cs, f, nc, rows] => match nc.toNat?, parseRows rows with
      | some nc, some rows =>
        let fl := if f = "generic" then some Fail.generic else if f = "mysql" then some Fail.mysql else if f = "none" then some Fail.none else none
        fl.map (fun fl => { callSusp := cs == "1", fail := fl, ncols := nc, rows := rows })
      | _, _ => none
  | [cs, f, nc, rows, sk] => match parsePlan [cs, f, nc, rows] with
      | some p => if sk = "q" then some { p with selfKill := some Kill.query } else if sk = "c" then some { p with selfKill := some Kill.conn } else none
      | none => none
  | _ => none

open Mimic.Script in
def parseCmd : List String → Option Cmd
  | "query" :: r => (parsePlan r).map .query
  | ["ping"] => some .ping
  | ["initdb", f] => some (.initDb (f == "1"))
  | ["quit"] => some .quit
  | ["prepare", n] => n.toNat?.map .prepare
  | "execute" :: k :: c :: r => (parsePlan r).map (.execute (k == "1") (c == "1"))
  | ["fetch", k, c, n, rows] => match n.toNat?, parseRows rows with
      | some n, some rows => some (.fetch (k == "1") (c == "1") n rows)
      | _, _ => none
  | ["reset", k] => some (.stmtReset (k == "1"))
  | ["close"] => some .stmtClose
  | ["longdata"] => some .longData
  | "fieldlist" :: r => (parsePlan r).map .fieldList
  | ["changeuser", k] => if k == "2" then some .changeUserRaised else some (.changeUser (k == "1"))
  | ["unknown"] => some .unknown
  | ["malformed"] => some .malformed
  | _ => none

def connReport (before : Nat) (c : Mimic.Conn.S) : String :=
  let newp := (c.out.drop before).map showPK
  (if newp.isEmpty then "-" else ",".intercalate newp) ++
    s!" {showPhase c.phase} close={c.closeCalls} init={if c.initDone then 1 else 0} reg={if c.registered then 1 else 0} tclosed={if c.transportClosed then 1 else 0} exc={showExc c.taskExc}"

open Mimic.Conn Mimic.Script in
def connDo (st : St) (e : Ev) : St × String :=
  let before := st.conn.out.length
  let c := step st.conn e
  ({ st with conn := c }, connReport before c)

open Mimic.Conn Mimic.Script in
def conn (st : St) : List String → St × String
  | ["new"] => ({ st with conn := Mimic.Conn.init }, connReport 0 Mimic.Conn.init)
  | ["login", "ok", s, f] => connDo st (.handshake (loginScript (.ok (s == "1") (f == "1"))) (s == "1") (f == "1"))
  | ["login", "denied"] => connDo st (.handshake (loginScript .denied) false false)
  | ["login", "unknown"] => connDo st (.handshake (loginScript .unknownUser) false false)
  | ["login", "malformed"] => connDo st (.handshake (loginScript .malformed) false false)
  | ["closefails", f] => ({ st with conn := { st.conn with closeFails := f == "1" } }, "ok")
  | "cmd" :: dep :: r => match parseCmd r with
      | some c => connDo st (.cmd (scriptOf (dep == "1") c))
      | none => (st, "bad-op")
  | ["resume"] => connDo st .resume
  | ["block"] => connDo st .block
  | ["unblock"] => connDo st .unblock
  | ["killq"] => connDo st (.kill .query)
  | ["killc"] => connDo st (.kill .conn)
  | ["deliver"] => connDo st .deliver
  | ["eof"] => connDo st .eof
  | ["lose"] => connDo st .lose
  | _ => (st, "bad-op")

/-! packets -/

def codecOfCollation (c : Nat) : Option String :=
  match Mimic.Extracted.Charset.collations.find? (fun x => x.1 == c) with
  | none => none
  | some (_, _, cs) => (Mimic.Extracted.Charset.charsets.find? (fun y => y.2.1 == cs)).map (fun y => y.2.2.1)

/-- `Collation(c).charset` as a character-set id -/
def charsetOfCollation (c : Nat) : Option Nat :=
  match Mimic.Extracted.Charset.collations.find? (fun x => x.1 == c) with
  | none => none
  | some (_, _, cs) => (Mimic.Extracted.Charset.charsets.find? (fun y => y.2.1 == cs)).map (fun y => y.1)

def codecOfCharset (cs : Nat) : Option String :=
  (Mimic.Extracted.Charset.charsets.find? (fun y => y.1 == cs)).map (fun y => y.2.2.1)

/-- decoders the driver knows exactly: utf-8 (strict), latin-1 (total), ascii; no codec ⇒ raises -/
def decForCharset (cs : Nat) (b : List UInt8) : Option (List UInt8) :=
  match codecOfCharset cs with
  | some "utf-8" => (utf8Dec b).map (fun _ => b)
  | some "iso8859-1" => some b
  | some "ascii" => if b.all (fun x => x.toNat < 128) then some b else none
  | _ => none

def decFor (c : Nat) (b : List UInt8) : Option (List UInt8) :=
  match codecOfCollation c with
  | some "utf-8" => (utf8Dec b).map (fun _ => b)
  | some "iso8859-1" => some b
  | some "ascii" => if b.all (fun x => x.toNat < 128) then some b else none
  | _ => none

def showOptB : Option (List UInt8) → String
  | none => "none"
  | some b => hex b

def pktOps (_st : St) : List String → String
  | ["hs", caps, h] => match caps.toNat?, unhex h with
      | some caps, some b =>
        match Mimic.Packets.parseHandshakeResponse caps charsetOfCollation decForCharset b with
        | .ssl c m co => s!"ssl {c} {m} {co}"
        | .error => "error"
        | .resp r => s!"resp caps={r.caps} max={r.maxPacket} cs={r.charset} user={hex r.username} auth={hex r.auth} db={showOptB r.db} plugin={showOptB r.plugin} attrs={";".intercalate (r.attrs.map (fun kv => hex kv.1 ++ ":" ++ hex kv.2))} zstd={r.zstd}"
      | _, _ => "bad-op"
  | _ => "bad-op"

/-! streaming -/

def parseNats (s : String) : Option (List Nat) := if s = "-" then some [] else optAllL ((s.splitOn ",").map String.toNat?)

def codeOr (s : String) (c : Nat) : Option Nat := if s = "code" then some c else s.toNat?

def strm (_st : St) : List String → String
  | ["served", batch, n, off, k] => match codeOr batch Mimic.Extracted.Stream.batchSize, n.toNat?, off.toNat?, k.toNat? with
      | some b, some n, some off, some k => toString (Mimic.Stream.servedAt b n off k)
      | _, _, _, _ => "bad-op"
  | ["loops"] => toString Mimic.Extracted.Stream.sourceLoops ++ " " ++ toString Mimic.Extracted.Stream.rowWriteDrains
  | ["first", b, m, sizes] => match codeOr b Mimic.Extracted.Stream.bufferSize, m.toNat?, parseNats sizes with
      | some b, some m, some sz => toString (Mimic.Stream.pulledAtFirstFlush b (Mimic.Stream.start m) sz)
      | _, _, _ => "bad-op"
  | ["flushes", b, m, sizes] => match codeOr b Mimic.Extracted.Stream.bufferSize, m.toNat?, parseNats sizes with
      | some b, some m, some sz =>
          let r := Mimic.Stream.run b (Mimic.Stream.start m) sz
          s!"{showNats r.flushes.reverse} pulled={r.pulled} handed={r.handed}"
      | _, _, _ => "bad-op"
  | ["yields", batch, n] => match codeOr batch Mimic.Extracted.Stream.batchSize, n.toNat? with
      | some b, some n => showNats (Mimic.Stream.yieldPoints b n)
      | _, _ => "bad-op"
  | _ => "bad-op"

/-! statement dispatch -/

def parseStmtKind : String → Option Mimic.Dispatch.Kind
  | "set" => some .set | "use" => some .use | "kill" => some .kill | "show" => some .show
  | "describeTable" => some .describeTable | "describeSelect" => some .describeSelect | "begin" => some .begin
  | "commit" => some .commit | "rollback" => some .rollback | "select" => some .select | "setop" => some .setop
  | "other" => some .other | _ => none

def optDb (s : String) : Option String := if s = "-" then none else some s

def parseStmt (s : String) : Option Mimic.Dispatch.Stmt :=
  match s.splitOn "/" with
  | [k, st, dbs, u, tag, f] => match parseStmtKind k, tag.toNat? with
      | some k, some t =>
          some ⟨k, st == "1", if dbs = "" then [] else (dbs.splitOn ",").map optDb, u, t, f == "1"⟩
      | _, _ => none
  | _ => none

def parseSel (s : String) : Option Mimic.Dispatch.Sel :=
  if s.startsWith "H:" then some (.handshake (optDb (s.drop 2).toString))
  else if s.startsWith "I:" then some (.initDb (s.drop 2).toString)
  else if s.startsWith "C:" then some (.changeUser (optDb (s.drop 2).toString))
  else if s.startsWith "T:" then
    let body := (s.drop 2).toString
    (optAllL ((if body = "" then [] else body.splitOn ";").map parseStmt)).map .text
  else none

def showWho : Option Mimic.Dispatch.Mw → String
  | none => "app"
  | some m => (reprStr m).replace "Mimic.Dispatch.Mw." ""

def showEntry (e : Mimic.Dispatch.Entry) : String := s!"{e.tag}@{e.db.getD "-"}>{showWho e.who}"

def dsp (_st : St) : List String → String
  | "run" :: evs => match optAllL (evs.map parseSel) with
      | some evs =>
          let order := Mimic.Extracted.Session.middlewareNames.filterMap Mimic.Dispatch.Mw.ofName
          let r := Mimic.Dispatch.connRun order Mimic.Extracted.Session.catalogDbs none evs
          s!"{r.1.getD "-"} " ++ "|".intercalate (r.2.map (fun t => ",".intercalate (t.map showEntry)))
      | none => "bad-op"
  | _ => "bad-op"

/-! system variables -/

open Mimic.Variables in
def parseLit (s : String) : Option Arg :=
  if s = "T" then some (.val (.bool true)) else if s = "F" then some (.val (.bool false))
  else if s = "N" then some (.val .none) else if s = "D" then some .dflt else if s = "X" then some .complex
  else if s.startsWith "i" then ((s.drop 1).toString.toInt?).map (fun i => .val (.int i))
  else if s.startsWith "s" then (unhexStr (s.drop 1).toString).map (fun x => .val (.str x))
  else if s.startsWith "f" then match (s.drop 1).toString.splitOn ":" with
    | [t, z, r] => match t.toInt?, unhexStr r with
      | some t, some r => some (.val (.flt t (z == "1") r))
      | _, _ => none
    | _ => none
  else none

def starOpt (s : String) : Option String := if s = "*" then none else some s

open Mimic.Variables in
def parseItem (s : String) : Option Item :=
  match s.splitOn "|" with
  | ["V", sc, name, lit] =>
    let scope := if sc = "S" then some Scope.session else if sc = "G" then some Scope.global else if sc = "U" then some Scope.user else none
    match scope, parseLit lit with
    | some sc, some a => some (.var sc name a)
    | _, _ => none
  | ["R", name, ref] => some (.varRef name ref)
  | ["N", cs, coll] => some (.names (starOpt cs) (starOpt coll))
  | ["C", cs] => some (.charset (starOpt cs))
  | ["T", chars] =>
    let names := (chars.splitOn "~").map (fun c => c.replace "_" " ")
    let looked := names.map (fun n => (Mimic.Extracted.Variables.transactionCharacteristics.find? (fun p => p.1 == n)).map (fun p => p.2))
    match optAllL looked with
    | some l => some (.transaction l)
    | none => some .transactionUnknown
  | ["Z"] => some .unsupported
  | _ => none

open Mimic.Variables in
def showV : V → String
  | .int i => s!"i:{i}"
  | .bool b => if b then "b:True" else "b:False"
  | .str x => "s:" ++ hex x.toUTF8.toList
  | .flt t _ _ => s!"f:{t}"
  | .none => "none"

open Mimic.Variables in
def showErr : Err → String
  | .unknown => "err:unknown" | .notDynamic => "err:notDynamic" | .badValue => "err:badValue" | .notSupported => "err:notSupported"

def varSchema := Mimic.Extracted.Variables.schema
def varCs := Mimic.Extracted.Variables.usableCharsets
def varDc (c : String) : Option String := Mimic.Extracted.Variables.defaultCollations.lookup c

open Mimic.Variables in
def parseAssign (s : String) : Option (String × Arg) :=
  match s.splitOn "=" with
  | [n, l] => (parseLit l).map (fun a => (n, a))
  | _ => none

open Mimic.Variables in
def varOps (st : St) : List String → St × String
  | ["reset"] => ({ st with vars := [] }, "ok")
  | ["force", name, lit] => match parseLit lit with
      | some a => match set varSchema varCs true st.vars name a with
        | .ok v => ({ st with vars := v }, "ok")
        | .error e => (st, showErr e)
      | none => (st, "bad-op")
  | "set" :: items => match optAllL (items.map parseItem) with
      | some its =>
        let r := setStmtR varSchema varCs varDc st.vars its
        ({ st with vars := r.1 }, match r.2 with | none => "ok" | some e => showErr e)
      | none => (st, "bad-op")
  | ["get", name] => (st, match get varSchema st.vars name with | .ok v => showV v | .error e => showErr e)
  | ["list"] => (st, ";".intercalate ((list varSchema st.vars Mimic.Extracted.Variables.sortedNames).map (fun p => p.1 ++ "=" ++ showV p.2)))
  | ["tz"] => (st, match get varSchema st.vars "time_zone" with
      | .ok v => (match tzOffset (pyStr v) with | some o => toString o | none => "bad")
      | .error e => showErr e)
  | ["hint", assigns, body] =>
      match optAllL ((if assigns = "-" then [] else assigns.splitOn ",").map parseAssign) with
      | some as =>
        -- the body reports what it read through a side channel: evaluate it separately on the hinted store
        let bodyF : Store → Option Err := fun s =>
          if body = "fail" then some .badValue
          else if body.startsWith "get:" then (match get varSchema s (body.drop 4).toString with | .ok _ => none | .error e => some e)
          else none
        let r := hinted varSchema varCs st.vars as bodyF
        let view :=
          if body.startsWith "get:" then
            match saveAll varSchema st.vars as with
            | none => "-"
            | some _ => match setAll varSchema varCs st.vars as with
              | (s1, none) => (match get varSchema s1 (body.drop 4).toString with | .ok v => showV v | .error e => showErr e)
              | (_, some _) => "-"
          else "-"
        ({ st with vars := r.1 }, view ++ "|" ++ (match r.2 with | none => "ok" | some e => showErr e))
      | none => (st, "bad-op")
  | _ => (st, "bad-op")

/-! character sets in force -/

open Mimic.Charset in
def parseCsEv (s : String) : Option Ev :=
  if s = "O" then some .other
  else if s.startsWith "H:" then ((s.drop 2).toString.toNat?).map .handshake
  else if s = "U:-" then some (.changeUser none)
  else if s.startsWith "U:" then ((s.drop 2).toString.toNat?).map (fun n => .changeUser (some n))
  else if s.startsWith "S:" then (optAllL (((s.drop 2).toString.splitOn "+").map parseItem)).map .setStmt
  else none

def csOps (_st : St) : List String → String
  | "run" :: evs => match optAllL (evs.map parseCsEv) with
      | some evs =>
        let t := Mimic.Charset.trace varSchema varCs varDc Mimic.Extracted.Charset.collations ⟨[], true⟩ evs
        " ".intercalate (t.map (fun p => p.1 ++ "/" ++ p.2))
      | none => "bad-op"
  | _ => "bad-op"

/-! catalog -/

/-- a mapping as a token stream: `c:<catalog>` `d:<db>` `t:<table>` `k:<column>:<type>` -/
def buildMapping (toks : List String) : Option Mimic.Catalog.Mapping :=
  let step := fun (acc : Option Mimic.Catalog.Mapping) (tok : String) =>
    match acc with
    | none => none
    | some m =>
      if tok.startsWith "c:" then some (m ++ [((tok.drop 2).toString, [])])
      else if tok.startsWith "d:" then
        match m.reverse with
        | (c, dbs) :: rest => some ((( c, dbs ++ [((tok.drop 2).toString, [])]) :: rest).reverse)
        | [] => none
      else if tok.startsWith "t:" then
        match m.reverse with
        | (c, dbs) :: rest => match dbs.reverse with
          | (d, ts) :: drest => some (((c, ((d, ts ++ [((tok.drop 2).toString, [])]) :: drest).reverse) :: rest).reverse)
          | [] => none
        | [] => none
      else if tok.startsWith "k:" then
        match (tok.drop 2).toString.splitOn ":" with
        | [n, ty] =>
          match m.reverse with
          | (c, dbs) :: rest => match dbs.reverse with
            | (d, ts) :: drest => match ts.reverse with
              | (t, cs) :: trest => some (((c, ((d, ((t, cs ++ [(n, ty)]) :: trest).reverse) :: drest).reverse) :: rest).reverse)
              | [] => none
            | [] => none
          | [] => none
        | _ => none
      else none
  toks.foldl step (some [])

def dashOpt (s : String) : Option String := if s = "-" then none else some s

def catOps (st : St) : List String → St × String
  | "load" :: toks => match buildMapping toks with
      | some m => ({ st with catalog := Mimic.Catalog.flatten m ++ Mimic.Extracted.Catalog.builtin }, s!"ok {(Mimic.Catalog.flatten m).length}")
      | none => (st, "bad-op")
  | ["dbs", pat] => (st, ",".intercalate (Mimic.Catalog.showDatabases st.catalog (dashOpt pat)))
  | ["tables", db, cur, pat] => (st, match Mimic.Catalog.showTables st.catalog (dashOpt db) (dashOpt cur) (dashOpt pat) with
      | some l => ",".intercalate l
      | none => "err:nodb")
  | ["columns", tbl, db, cur, pat] => (st, ",".intercalate ((Mimic.Catalog.showColumns st.catalog tbl (dashOpt db) (dashOpt cur) (dashOpt pat)).map (fun p => p.1 ++ ":" ++ p.2)))
  | ["like", pat, s] => (st, if Mimic.Like.likeS (if pat = "-" then "" else pat) (if s = "-" then "" else s) then "1" else "0")
  | ["ordinals", tbl, db] => (st, ",".intercalate (((Mimic.Catalog.withOrdinals [] st.catalog).filter (fun p => p.1.tbl == tbl && p.1.db == db)).map (fun p => s!"{p.1.name}:{p.2}")))
  | _ => (st, "bad-op")

/-! reply packets -/

def repOps (_st : St) : List String → String
  | ["ok", p41, tr, eof, a, l, s, w] => match a.toNat?, l.toNat?, s.toNat?, w.toNat? with
      | some a, some l, some s, some w => hex (Mimic.Reply.encOk (p41 == "1") (tr == "1") ⟨eof == "1", a, l, s, w⟩)
      | _, _, _, _ => "bad-op"
  | ["eof", p41, w, s] => match w.toNat?, s.toNat? with
      | some w, some s => hex (Mimic.Reply.encEof (p41 == "1") ⟨w, s⟩)
      | _, _ => "bad-op"
  | ["err", p41, c, stt, msg] => match c.toNat?, unhex stt, unhex msg with
      | some c, some stt, some msg => hex (Mimic.Reply.encErr (p41 == "1") ⟨c, stt, msg⟩)
      | _, _, _ => "bad-op"
  | ["coldef", sc, tb, ot, nm, on, cs, ln, ty, fg, dc, df] =>
      match unhex sc, unhex tb, unhex ot, unhex nm, unhex on with
      | some sc, some tb, some ot, some nm, some on =>
        match cs.toNat?, ln.toNat?, ty.toNat?, fg.toNat?, dc.toNat? with
        | some cs, some ln, some ty, some fg, some dc =>
          let d : Option (Option (Option (List UInt8))) :=
            if df = "x" then some none else if df = "N" then some (some none) else (unhex df).map (fun b => some (some b))
          match d with
          | some d =>
            let c : Mimic.Reply.ColDef := ⟨sc, tb, ot, nm, on, cs, ln, ty, fg, dc, d⟩
            let b := Mimic.Reply.encColDef c
            hex b ++ " " ++ (match Mimic.Reply.decColDef d.isSome b with | some c' => (if c' = c then "roundtrip" else "differs") | none => "undecodable")
          | none => "bad-op"
        | _, _, _, _, _ => "bad-op"
      | _, _, _, _, _ => "bad-op"
  | ["dec-coldef", fl, b] => match unhex b with
      | some b => (match Mimic.Reply.decColDef (fl == "1") b with | some c => "ok " ++ hex c.name | none => "undecodable")
      | none => "bad-op"
  | _ => "bad-op"

def handle (st : St) (line : String) : St × String :=
  match words line with
  | "ctl" :: rest => ctl st rest
  | "frm" :: rest => frm st rest
  | "wr" :: rest => wr st rest
  | "cur" :: rest => cur st rest
  | "res" :: rest => (st, res st rest)
  | "par" :: rest => (st, par st rest)
  | "auth" :: rest => auth st rest
  | "conn" :: rest => conn st rest
  | "pkt" :: rest => (st, pktOps st rest)
  | "strm" :: rest => (st, strm st rest)
  | "dsp" :: rest => (st, dsp st rest)
  | "var" :: rest => varOps st rest
  | "cs" :: rest => (st, csOps st rest)
  | "cat" :: rest => catOps st rest
  | "rep" :: rest => (st, repOps st rest)
  | _ => (st, "bad-op")

/-! several connections: `@<i> <line>` runs the line on connection i's own state (the step of `Mimic.Server.runInter`) -/

structure Multi where
  conns : List (Nat × St) := []

def Multi.get (m : Multi) (i : Nat) : St := (m.conns.lookup i).getD {}

def Multi.set (m : Multi) (i : Nat) (s : St) : Multi := { conns := (i, s) :: m.conns.filter (fun p => p.1 != i) }

/-- the semantic core of the multi-connection driver: run `line` on connection `i`'s own state -/
def stepAt (m : Multi) (i : Nat) (line : String) : Multi × String :=
  ((m.set i (handle (m.get i) line).1), (handle (m.get i) line).2)

def handleMulti (m : Multi) (line : String) : Multi × String :=
  if line.startsWith "@" then
    match ((line.drop 1).toString.splitOn " ") with
    | i :: rest => match i.toNat? with
      | some i => stepAt m i (" ".intercalate rest)
      | none => (m, "bad-op")
    | [] => (m, "bad-op")
  else stepAt m 0 line

end Mimic.Drv
