import Mimic.Control
/-! Line-protocol driver pieces: one `handle` per domain. Unknown input is answered `bad-op`, never defaulted. -/
namespace Mimic.Drv

def words (s : String) : List String := (s.splitOn " ").filter (· ≠ "")

structure St where
  ctl : Mimic.Control.Ctl := Mimic.Control.mk 0

def ctl (st : St) : List String → St × String
  | ["new", sid] => match sid.toNat? with
      | some n => ({ st with ctl := Mimic.Control.mk n }, "ok")
      | none => (st, "bad-op")
  | ["newn", n, bits, sid] => match n.toNat?, bits.toNat?, sid.toNat? with
      | some n, some b, some sid =>
          ({ st with ctl := Mimic.Control.mkN n b Mimic.Extracted.Control.maxServerId sid }, "ok")
      | _, _, _ => (st, "bad-op")
  | ["add"] => match Mimic.Control.add st.ctl with
      | some (id, c') => ({ st with ctl := c' }, toString id)
      | none => (st, "full")
  | ["rm", id] => match id.toNat? with
      | some n => ({ st with ctl := Mimic.Control.remove st.ctl n }, "ok")
      | none => (st, "bad-op")
  | ["has", id] => match id.toNat? with
      | some n => (st, if Mimic.Control.finds st.ctl n then "1" else "0")
      | none => (st, "bad-op")
  | ["len"] => (st, toString st.ctl.live.length)
  | _ => (st, "bad-op")

def handle (st : St) (line : String) : St × String :=
  match words line with
  | "ctl" :: rest => ctl st rest
  | _ => (st, "bad-op")

end Mimic.Drv
