import Mimic.Control
import Mimic.Framing
/-! Line-protocol driver pieces: one `handle` per domain. Unknown input is answered `bad-op`, never defaulted. -/
namespace Mimic.Drv

def words (s : String) : List String := (s.splitOn " ").filter (· ≠ "")

def hexVal (c : Char) : Option Nat :=
  if '0' ≤ c ∧ c ≤ '9' then some (c.toNat - '0'.toNat)
  else if 'a' ≤ c ∧ c ≤ 'f' then some (c.toNat - 'a'.toNat + 10)
  else none

def unhexAux : List Char → List UInt8 → Option (List UInt8)
  | [], acc => some acc.reverse
  | [_], _ => none
  | a :: b :: rest, acc => match hexVal a, hexVal b with
    | some x, some y => unhexAux rest (UInt8.ofNat (16 * x + y) :: acc)
    | _, _ => none

/-- `-` is the empty byte string -/
def unhex (s : String) : Option (List UInt8) := if s = "-" then some [] else unhexAux s.toList []

def hexDigit (n : Nat) : Char := if n < 10 then Char.ofNat (n + 48) else Char.ofNat (n + 87)

def hex (b : List UInt8) : String :=
  if b.isEmpty then "-" else String.ofList (b.flatMap (fun x => [hexDigit (x.toNat / 16), hexDigit (x.toNat % 16)]))

structure St where
  ctl : Mimic.Control.Ctl := Mimic.Control.mk 0
  frmM : Nat := Mimic.Framing.M
  frm : Mimic.Framing.St := Mimic.Framing.init 0
  wr : Mimic.Framing.WSt := { pending := [], seq := 0, sent := [] }
  wrB : Nat := 32768

def ctl (st : St) : List String → St × String
  | ["new", sid] => match sid.toNat? with
      | some n => ({ st with ctl := Mimic.Control.mk n }, "ok")
      | none => (st, "bad-op")
  | ["newn", n, bits, sid] => match n.toNat?, bits.toNat?, sid.toNat? with
      | some n, some b, some sid =>
          ({ st with ctl := Mimic.Control.mkN n b Mimic.Extracted.Control.maxServerId sid }, "ok")
      | _, _, _ => (st, "bad-op")
  | ["add"] => match Mimic.Control.add st.ctl with
      | some (id, c') => ({ st with ctl := c' }, toString id)
      | none => (st, "full")
  | ["rm", id] => match id.toNat? with
      | some n => ({ st with ctl := Mimic.Control.remove st.ctl n }, "ok")
      | none => (st, "bad-op")
  | ["has", id] => match id.toNat? with
      | some n => (st, if Mimic.Control.finds st.ctl n then "1" else "0")
      | none => (st, "bad-op")
  | ["len"] => (st, toString st.ctl.live.length)
  | ["live"] => (st, " ".intercalate ((st.ctl.live.mergeSort (· ≤ ·)).map toString))
  | _ => (st, "bad-op")

def showEv : Mimic.Framing.Ev → String
  | .msg p => "msg:" ++ hex p
  | .seqError g e => s!"seqerr:{g}:{e}"

def showEvs (es : List Mimic.Framing.Ev) : String :=
  if es.isEmpty then "-" else ",".intercalate (es.map showEv)

def frm (st : St) : List String → St × String
  | ["m", m] => match m.toNat? with
      | some n => ({ st with frmM := n }, "ok")
      | none => (st, "bad-op")
  | ["mdefault"] => ({ st with frmM := Mimic.Framing.M }, "ok")
  | ["reset", e] => match e.toNat? with
      | some n => ({ st with frm := Mimic.Framing.init n }, "ok")
      | none => (st, "bad-op")
  | ["feed", h] => match unhex h with
      | some b => let r := Mimic.Framing.feed st.frmM st.frm b; ({ st with frm := r.1 }, showEvs r.2)
      | none => (st, "bad-op")
  | ["state"] => (st, s!"{st.frm.buf.length} {st.frm.acc.length} {st.frm.expect} {st.frm.hdr} {st.frm.dead}")
  | ["split", s, h] => match s.toNat?, unhex h with
      | some s, some b =>
          (st, ",".intercalate ((Mimic.Framing.split st.frmM s b).map (fun qc => s!"{qc.1}:{hex qc.2}")))
      | _, _ => (st, "bad-op")
  | ["splitlens", s, len] => match s.toNat?, len.toNat? with
      | some s, some len =>
          (st, ",".intercalate ((Mimic.Framing.splitLens st.frmM s len).map (fun ql => s!"{ql.1}:{ql.2}")))
      | _, _ => (st, "bad-op")
  | _ => (st, "bad-op")

/-- transport writes are reported as `len:first-bytes..last-bytes` to keep lines short; the harness applies the
    same canonicalisation to what the real transport received -/
def showChunk (b : List UInt8) : String :=
  s!"{b.length}:{hex (b.take 12)}:{hex (b.drop (b.length - 6))}"

def wr (st : St) : List String → St × String
  | ["reset", q, b] => match q.toNat?, b.toNat? with
      | some q, some b => ({ st with wr := { pending := [], seq := q % 256, sent := [] }, wrB := b }, "ok")
      | _, _ => (st, "bad-op")
  | ["write", d, h] => match unhex h with
      | some p =>
          let before := st.wr.sent.length
          let w := Mimic.Framing.wwrite st.frmM st.wrB st.wr p (d == "1")
          ({ st with wr := w },
           s!"{w.pending.length} {w.seq} " ++ ",".intercalate ((w.sent.drop before).map showChunk))
      | none => (st, "bad-op")
  | ["zeros", d, n] => match n.toNat? with   -- a payload of n zero bytes (large sizes without a hex line)
      | some n =>
          let before := st.wr.sent.length
          let w := Mimic.Framing.wwrite st.frmM st.wrB st.wr (List.replicate n 0) (d == "1")
          ({ st with wr := w },
           s!"{w.pending.length} {w.seq} " ++ ",".intercalate ((w.sent.drop before).map showChunk))
      | none => (st, "bad-op")
  | ["drain"] =>
      let before := st.wr.sent.length
      let w := Mimic.Framing.flush st.wr
      ({ st with wr := w }, s!"{w.pending.length} {w.seq} " ++ ",".intercalate ((w.sent.drop before).map showChunk))
  | _ => (st, "bad-op")

def handle (st : St) (line : String) : St × String :=
  match words line with
  | "ctl" :: rest => ctl st rest
  | "frm" :: rest => frm st rest
  | "wr" :: rest => wr st rest
  | _ => (st, "bad-op")

end Mimic.Drv
