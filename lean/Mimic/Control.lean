import Mimic.Extracted.Control
/-!
Model of `mysql_mimic.control.LocalControl` (L5): connection-id allocator and registry.

* `prefix_`  = `(server_id % _MAX_SERVER_ID) << _CONNECTION_ID_BITS`
* `seq`      = value of `seq(_MAX_CONNECTION_SEQ)` (next value handed out)
* `live`     = keys of `_connections`

`_new_connection_id` skips ids that are still registered with an unbounded `while`; the model gives
that loop fuel `N` and `MimicProps.C18.add_succeeds_iff_not_full` shows the fuel is never exhausted.
-/
namespace Mimic.Control
open Mimic.Extracted.Control

/-- size of the sequence space (`_MAX_CONNECTION_SEQ`) of the code under verification -/
def N : Nat := maxConnectionSeq

/-- The model is parametric in the size `n` of the sequence space (the class attribute
    `_MAX_CONNECTION_SEQ`); the code's value is `N`.  The correspondence check also runs the real class
    with the attribute overridden to small values, so that completely full registries and many
    wrap-arounds are cheap to explore. -/
structure Ctl where
  n : Nat
  prefix_ : Nat
  seq : Nat
  live : List Nat
deriving Repr

def mkN (n bits maxSid serverId : Nat) : Ctl :=
  { n := n, prefix_ := (serverId % maxSid) * 2 ^ bits, seq := 0, live := [] }

def mk (serverId : Nat) : Ctl := mkN N connectionIdBits maxServerId serverId

/-- the skip loop of `_new_connection_id`, with fuel -/
def probe (n p : Nat) (live : List Nat) : Nat → Nat → Option (Nat × Nat)
  | 0, _ => none
  | f+1, s => if (p + s) ∈ live then probe n p live f ((s + 1) % n) else some (p + s, (s + 1) % n)

/-- `LocalControl.add`: `none` models `TooManyConnections` -/
def add (c : Ctl) : Option (Nat × Ctl) :=
  if c.live.length ≥ c.n then none
  else match probe c.n c.prefix_ c.live c.n c.seq with
    | none => none
    | some (id, s') => some (id, { c with seq := s', live := id :: c.live })

/-- `LocalControl.remove` (`dict.pop(id, None)`) -/
def remove (c : Ctl) (id : Nat) : Ctl := { c with live := c.live.erase id }

/-- `LocalControl.kill` finds its target iff the id is registered -/
def finds (c : Ctl) (id : Nat) : Bool := c.live.contains id

inductive Op | add | remove (id : Nat)

def step (c : Ctl) : Op → Ctl
  | .add => match add c with | some (_, c') => c' | none => c
  | .remove id => remove c id

def run (c : Ctl) (ops : List Op) : Ctl := ops.foldl step c

end Mimic.Control
