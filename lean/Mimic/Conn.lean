/-!
L4 — one connection as an event-driven machine.

The control skeleton of `Connection._start`, `Connection.command_phase` (its `try / except MysqlError / except
AuthenticationFailed / except CancelledError / except Exception / finally`), `Connection.kill`,
`Connection.start` and the `finally` of `MysqlServer._client_connected_cb` is modelled exactly; the *handlers*
are scripts of micro-operations (`Mimic.Script.scriptOf` builds the script of each command) and the machine is
generic in the script, so its theorems quantify over arbitrary scripts.

asyncio semantics assumed (A1–A4 of DESIGN.md): other tasks run only while this one is parked at a suspending
await; `Task.cancel()` on a parked task raises `CancelledError` at that await; on a running task it is delivered
at the next *suspending* await; `drain()` suspends iff the transport is blocked and raises iff it was lost;
`readexactly` raises `IncompleteReadError` at EOF and the transport's exception after a connection loss.
Packets written with `drain=False` sit in the stream buffer until the next drain (the 32 KiB threshold flush is
the subject of C12 and is not modelled here: responses are assumed smaller).
-/
namespace Mimic.Conn

/-- error packet classes that the properties distinguish -/
inductive ErrC | generic | mysql | queryKilled | sessionKilled | handshake | accessDenied | unknownUser
deriving Repr, DecidableEq

/-- packet kinds (canonical form of the transcript) -/
inductive PK
  | ok
  | err (c : ErrC)
  | colCount (n : Nat)
  | colDef
  | eofMeta                      -- EOF after the column definitions (only without CLIENT_DEPRECATE_EOF)
  | term (flags : Nat)           -- result terminator: EOF or OK-as-EOF; flags = cursor status bits (0, 0x40, 0x80)
  | row (id : Nat)
  | prepOk (nparams : Nat)
  | greeting
  | authSwitch
  | authMore
deriving Repr, DecidableEq

inductive Kill | query | conn
deriving Repr, DecidableEq

/-- exception classes as the `except` clauses distinguish them -/
inductive Exc | mysqlError | authFailed | generic | cancelled | connLost
deriving Repr, DecidableEq

/-- session callbacks -/
inductive Cb | init | query | use | reset | close | schema
deriving Repr, DecidableEq

/-- micro-operations of a handler script -/
inductive Op
  | emit (p : PK)                 -- `stream.write(p, drain=False)`: buffered
  | drain                         -- `stream.drain()` (also the drain of `write(..., drain=True)`): flush; suspends iff blocked
  | call (c : Cb) (suspends : Bool) (raises : Bool)   -- await a session callback
  | callRet (c : Cb) (raises : Bool)                   -- the callback returns / raises
  | pull (suspends : Bool)        -- pull a row from a source that may await
  | yield_                        -- `await asyncio.sleep(0)` of `cooperative_iterate`
  | raise_ (e : Exc)              -- parser / application / row source raises
  | selfKill (k : Kill)           -- the statement is a KILL aimed at this very connection (`current_task() is _task`)
  | quit                          -- COM_QUIT: `return` from `command_phase`
deriving Repr, DecidableEq

/-- where the coroutine is, i.e. which `try` blocks enclose the current point -/
inductive Lvl
  | connPhase        -- `connection_phase()` / `session.init` inside the first `try` of `_start`
  | initing          -- inside `await self.session.init(self)` (same `try`)
  | connArm          -- `except Exception` of that `try`: writing ERR 1043 before re-raising
  | handler          -- inside the dispatch `try` of `command_phase`
  | cmdArm           -- inside an `except` arm of `command_phase` (writing the ERR)
  | startArm         -- inside `except CancelledError` of `_start` (writing "Session was killed")
  | closing          -- inside `finally: await self.session.close()`
deriving Repr, DecidableEq

/-- what a parked coroutine is waiting for -/
inductive Wait
  | drain          -- blocked `writer.drain()`: woken by `unblock` (or by a connection loss)
  | future         -- a session callback / row source awaiting something the application controls: woken by `resume`
deriving Repr, DecidableEq

inductive Phase
  | greeting                       -- handshake written, parked in `stream.read()` for the response
  | idle                           -- parked in `stream.read()` of `command_phase`
  | parked (lvl : Lvl) (w : Wait) (rest : List Op) (exc : Option Exc)   -- `exc`: what `_start` re-raises after `closing`
  | closed
deriving Repr, DecidableEq

structure S where
  phase : Phase
  kill : Option Kill := none        -- `self._kill`
  mustCancel : Bool := false        -- cancellation requested while running, not yet delivered
  cancelReq : Bool := false         -- `Task.cancel()` was called on the parked task; it has not run yet
  executing : Bool := false         -- `self._executing`
  blocked : Bool := false           -- transport not accepting (harness / client)
  lost : Bool := false              -- transport lost: every drain raises, reads raise
  eofSeen : Bool := false           -- the client closed its side; noticed at the next read
  initDone : Bool := false          -- `session.init` completed
  initSusp : Bool := false          -- environment: `session.init` awaits something pending
  initFails : Bool := false         -- environment: `session.init` raises
  closeFails : Bool := false        -- environment: `session.close` raises
  closeCalls : Nat := 0             -- calls of `session.close`
  registered : Bool := true         -- present in the Control registry
  transportClosed : Bool := false
  buf : List PK := []               -- stream buffer (written, not flushed)
  out : List PK := []               -- handed to the transport, oldest first
  taskExc : Option Exc := none      -- how `_start` ended (`none`: returned normally)
deriving Repr

inductive Ev
  | handshake (script : List Op) (initSusp initFails : Bool)   -- handshake response arrives: the rest of `connection_phase`, then `session.init`
  | cmd (script : List Op)          -- a command packet arrives
  | resume                          -- the awaited thing completed (future resolved / next loop tick)
  | block
  | unblock
  | kill (k : Kill)                 -- `Connection.kill(k)` called from another task / the Control API
  | deliver                         -- the cancelled task runs: `CancelledError` is raised at the await it is parked at
  | eof                             -- client closed its side
  | lose                            -- transport lost (socket error)
deriving Repr

def init : S := { phase := .greeting, out := [.greeting] }

def flush (s : S) : S := if s.lost then { s with buf := [] } else { s with out := s.out ++ s.buf, buf := [] }

/-- `connection.start()` ended: `finally` of `_client_connected_cb` (`writer.close()`, `control.remove`) -/
def release (s : S) (e : Option Exc) : S :=
  { s with phase := .closed, registered := false, transportClosed := true, taskExc := e, mustCancel := false, buf := [] }

/-- Generic interpreter of an op list at level `lvl`.  `onEnd` = what follows the last op, `onThrow` = where an
    exception raised at this level goes.  Structural recursion on the op list. -/
def runOps (lvl : Lvl) (onEnd : S → Option Exc → S) (onThrow : S → Exc → S) : S → List Op → Option Exc → S
  | s, [], exc => onEnd s exc
  | s, op :: rest, exc =>
    match op with
    | .emit p => runOps lvl onEnd onThrow { s with buf := s.buf ++ [p] } rest exc
    | .drain =>
      if s.lost then onThrow (flush s) .connLost
      else if s.blocked then
        if s.mustCancel then onThrow { (flush s) with mustCancel := false } .cancelled
        else { (flush s) with phase := .parked lvl .drain rest exc }
      else runOps lvl onEnd onThrow (flush s) rest exc
    | .call c susp raises =>
      if susp then
        if s.mustCancel then
          onThrow { s with mustCancel := false, closeCalls := if c = .close then s.closeCalls + 1 else s.closeCalls } .cancelled
        else { s with phase := .parked lvl .future (.callRet c raises :: rest) exc,
                      closeCalls := if c = .close then s.closeCalls + 1 else s.closeCalls }
      else
        runOps lvl onEnd onThrow { s with closeCalls := if c = .close then s.closeCalls + 1 else s.closeCalls }
          (.callRet c raises :: rest) exc
    | .callRet c raises =>
      if raises then onThrow s .generic
      else runOps lvl onEnd onThrow (if c = .init then { s with initDone := true } else s) rest exc
    | .pull susp =>
      if susp then
        if s.mustCancel then onThrow { s with mustCancel := false } .cancelled
        else { s with phase := .parked lvl .future rest exc }
      else runOps lvl onEnd onThrow s rest exc
    | .yield_ =>
      -- `sleep(0)` always suspends, so a pending cancellation is delivered here; otherwise the loop resumes the
      -- coroutine on its next iteration (no other event of this connection can intervene)
      if s.mustCancel then onThrow { s with mustCancel := false } .cancelled
      else runOps lvl onEnd onThrow s rest exc
    | .raise_ e => onThrow s e
    | .selfKill k =>
      match k with
      | .query => runOps lvl onEnd onThrow s rest exc          -- `kill()` returns early: nothing but the KILL itself to abort
      | .conn => runOps lvl onEnd onThrow { s with kill := some .conn, mustCancel := true } rest exc
    | .quit => onThrow s .authFailed        -- `return` leaves `command_phase` exactly like the AuthenticationFailed arm

/-- `finally: await self.session.close()` and what follows -/
def runClosing (s : S) (ops : List Op) (exc : Option Exc) : S :=
  runOps .closing (fun s e => release s e) (fun s e => release s (some e)) s ops exc

def closeSession (s : S) (exc : Option Exc) : S := runClosing s [.call .close false s.closeFails] exc

/-- `except CancelledError` of `_start` with `_kill == CONNECTION` -/
def runStartArm (s : S) (ops : List Op) : S :=
  runOps .startArm (fun s _ => closeSession { s with kill := none } none) (fun s e => closeSession s (some e)) s ops none

/-- an exception reaches the second `try` of `_start` -/
def throwStart (s : S) (e : Exc) : S :=
  match e with
  | .cancelled =>
    if s.kill = some .conn then runStartArm s [.emit (.err .sessionKilled), .drain]
    else closeSession s (some .cancelled)
  | .authFailed => closeSession s none          -- `command_phase` returned normally
  | _ => closeSession s (some e)

/-- back to `stream.read()` in `command_phase` (a suspension point; also where EOF / loss are noticed) -/
def toIdle (s : S) : S :=
  if s.lost then throwStart s .connLost
  else if s.eofSeen then closeSession s none
  else if s.mustCancel then throwStart { s with mustCancel := false } .cancelled
  else { s with phase := .idle }

/-- an `except` arm of `command_phase`; afterwards `finally: reset_seq` and the loop -/
def runCmdArm (s : S) (ops : List Op) : S :=
  runOps .cmdArm (fun s _ => toIdle (if s.kill = some .query then { s with kill := none } else s))
    (fun s e => throwStart s e) s ops none

/-- an exception is raised inside the dispatch `try` of `command_phase` -/
def throwHandler (s : S) (e : Exc) : S :=
  match e with
  | .mysqlError => runCmdArm { s with executing := false } [.emit (.err .mysql), .drain]
  | .authFailed => throwStart { s with executing := false } .authFailed
  | .cancelled =>
    if s.kill = some .query then runCmdArm { s with executing := false } [.emit (.err .queryKilled), .drain]
    else throwStart { s with executing := false } .cancelled
  | _ => runCmdArm { s with executing := false } [.emit (.err .generic), .drain]

def runHandler (s : S) (ops : List Op) : S :=
  runOps .handler (fun s _ => toIdle { s with executing := false }) throwHandler s ops none

/-- `except Exception as e: write ERR 1043; raise` of the first `try` of `_start` -/
def runConnArm (s : S) (ops : List Op) (e : Exc) : S :=
  runOps .connArm (fun s exc => release s exc) (fun s e' => release s (some e')) s ops (some e)

def throwConn (s : S) (e : Exc) : S :=
  match e with
  | .authFailed => release (flush s) none                 -- `except AuthenticationFailed: return` (ERR already drained)
  | .cancelled => release s (some .cancelled)             -- BaseException: not caught; the session was never initialised
  | _ => runConnArm s [.emit (.err .handshake), .drain] e

/-- `session.init` returned or raised -/
def finishInit (s : S) : S :=
  if s.initFails then throwConn s .generic else toIdle { s with initDone := true }

/-- `await self.session.init(self)` -/
def startInit (s : S) : S :=
  if s.initSusp then
    if s.mustCancel then throwConn { s with mustCancel := false } .cancelled
    else { s with phase := .parked .initing .future [] none }
  else finishInit s

def runConnPhase (s : S) (ops : List Op) : S :=
  runOps .connPhase (fun s _ => startInit s) throwConn s ops none

/-- resume a parked coroutine at its level -/
def resumeAt (s : S) (lvl : Lvl) (rest : List Op) (exc : Option Exc) : S :=
  match lvl with
  | .connPhase => runConnPhase s rest
  | .initing => finishInit s
  | .connArm => runOps .connArm (fun s exc => release s exc) (fun s e' => release s (some e')) s rest exc
  | .handler => runHandler s rest
  | .cmdArm => runCmdArm s rest
  | .startArm => runStartArm s rest
  | .closing => runClosing s rest exc

/-- an exception is raised at the await where the coroutine is parked -/
def throwAt (s : S) (lvl : Lvl) (e : Exc) : S :=
  match lvl with
  | .connPhase => throwConn s e
  | .initing => throwConn s e
  | .connArm => release s (some e)
  | .handler => throwHandler s e
  | .cmdArm => throwStart s e
  | .startArm => closeSession s (some e)
  | .closing => release s (some e)

def step (s : S) : Ev → S
  | .handshake script isusp ifails =>
    match s.phase with
    | .greeting => runConnPhase { s with initSusp := isusp, initFails := ifails } script
    | _ => s
  | .cmd script =>
    match s.phase with
    | .idle => runHandler { s with executing := true } script
    | _ => s                                   -- bytes stay in the reader's buffer (not modelled: no pipelining)
  | .resume =>
    -- once `Task.cancel()` was called the awaited future is cancelled: resolving it later wakes nobody
    if s.cancelReq then s else
    match s.phase with
    | .parked lvl .future rest exc => resumeAt s lvl rest exc
    | _ => s
  | .block => { s with blocked := true }
  | .unblock =>
    if s.cancelReq then { s with blocked := false } else
    match s.phase with
    | .parked lvl .drain rest exc => resumeAt { s with blocked := false } lvl rest exc
    | _ => { s with blocked := false }
  | .kill k =>
    match s.phase with
    | .closed => s                             -- `_task is None`
    | _ =>
      match k with
      | .query =>
        -- only a command that is being executed can be killed, and only once
        if s.executing && s.kill.isNone then { s with kill := some .query, cancelReq := true } else s
      | .conn => { s with kill := some .conn, cancelReq := true }
  | .deliver =>
    if s.cancelReq then
      match s.phase with
      | .closed => s
      | .greeting => throwConn { s with cancelReq := false } .cancelled
      | .idle => throwStart { s with cancelReq := false } .cancelled
      | .parked lvl _ _ _ => throwAt { s with cancelReq := false } lvl .cancelled
    else s
  | .eof =>
    match s.phase with
    | .greeting => throwConn s .generic        -- ConnectionClosed inside connection_phase
    | .idle => closeSession s none             -- ConnectionClosed: `command_phase` returns
    | .closed => s
    | _ => { s with eofSeen := true }
  | .lose =>
    match s.phase with
    | .closed => s
    | .greeting => throwConn { s with lost := true } .connLost
    | .idle => throwStart { s with lost := true } .connLost
    | .parked lvl .drain _ _ => throwAt { s with lost := true } lvl .connLost   -- the drain waiter is woken with the error
    | .parked _ .future _ _ => { s with lost := true }                            -- noticed at the next drain / read

def runAll (s : S) : List Ev → S
  | [] => s
  | e :: es => runAll (step s e) es

end Mimic.Conn
