import Mimic.Like
/-!
L6 — the catalog (`mapping_to_columns`, `info_schema_tables`, `show_statement_to_info_schema_query`,
`com_field_list_to_show_statement`).  A schema mapping is an association list at every level (Python dict: keys are
unique and keep their insertion order).
-/
namespace Mimic.Catalog
open Mimic.Like

structure Col where
  cat : String
  db : String
  tbl : String
  name : String
  ty : String
deriving DecidableEq, Repr

abbrev Cols := List (String × String)                 -- column → type
abbrev Tables := List (String × Cols)                 -- table → columns
abbrev Dbs := List (String × Tables)                  -- database → tables
abbrev Mapping := List (String × Dbs)                 -- catalog → databases (depth 4)

/-- depth 2 (`{table: {col: type}}`) and depth 3 (`{db: {table: {col: type}}}`) are wrapped: database `""`, catalog `def` -/
def ofDepth2 (t : Tables) : Mapping := [("def", [("", t)])]
def ofDepth3 (d : Dbs) : Mapping := [("def", d)]

def colsOf (c d t : String) (cs : Cols) : List Col := cs.map (fun p => ⟨c, d, t, p.1, p.2⟩)
def tablesOf (c d : String) (ts : Tables) : List Col := ts.flatMap (fun p => colsOf c d p.1 p.2)
def dbsOf (c : String) (ds : Dbs) : List Col := ds.flatMap (fun p => tablesOf c p.1 p.2)

/-- `mapping_to_columns` -/
def flatten (m : Mapping) : List Col := m.flatMap (fun p => dbsOf p.1 p.2)

/-- ordinal position: how many columns of the same table came before -/
def ordinal (before : List Col) (c : Col) : Nat := (before.filter (fun x => x.cat == c.cat && x.db == c.db && x.tbl == c.tbl)).length

def withOrdinals : List Col → List Col → List (Col × Nat)
  | _, [] => []
  | before, c :: rest => (c, ordinal before c) :: withOrdinals (before ++ [c]) rest

def dedup {α : Type} [DecidableEq α] : List α → List α
  | [] => []
  | x :: xs => if x ∈ xs then dedup xs else x :: dedup xs

/-- the three catalog tables as the code fills them: declared columns first, then the built-in ones -/
def columnsTable (declared builtin : List Col) : List (Col × Nat) := withOrdinals [] (declared ++ builtin)
def tableKeys (all : List Col) : List (String × String × String) := dedup (all.map (fun c => (c.cat, c.db, c.tbl)))
def dbKeys (all : List Col) : List (String × String) := dedup (all.map (fun c => (c.cat, c.db)))

def likeOpt (pat : Option String) (s : String) : Bool :=
  match pat with
  | none => true
  | some p => if p = "" then true else likeS p s      -- `if like:` — an empty pattern is no filter

/-- SHOW DATABASES [LIKE p] -/
def showDatabases (all : List Col) (pat : Option String) : List String :=
  ((dbKeys all).map (·.2)).filter (likeOpt pat)

/-- SHOW TABLES [FROM db] [LIKE p]; `none` when no database is selected -/
def showTables (all : List Col) (db : Option String) (cur : Option String) (pat : Option String) : Option (List String) :=
  let d := match db with | some x => if x = "" then cur.getD "" else x | none => cur.getD ""
  if d = "" then none
  else some ((((tableKeys all).filter (fun k => k.2.1 == d)).map (·.2.2)).filter (likeOpt pat))

/-- SHOW COLUMNS FROM t [FROM db] [LIKE p] / DESCRIBE [db.]t / COM_FIELD_LIST t [wildcard]: (name, type) in table order -/
def showColumns (all : List Col) (tbl : String) (db : Option String) (cur : Option String) (pat : Option String) : List (String × String) :=
  let d := match db with | some x => if x = "" then cur.getD "" else x | none => cur.getD ""
  ((all.filter (fun c => c.tbl == tbl && (d == "" || c.db == d))).filter (fun c => likeOpt pat c.name)).map (fun c => (c.name, c.ty))

end Mimic.Catalog
