/-!
L5 — several connections served by one process.  Each connection owns its state; a server step is
"(connection i, event)" and applies the per-connection step to connection i's state only.
-/
namespace Mimic.Server

/-- point update of a family of connection states -/
def upd {σ : Type} (f : Nat → σ) (i : Nat) (v : σ) : Nat → σ := fun j => if j = i then v else f j

/-- interleaved run: events tagged with the connection they arrive on; returns the final states and every
    connection's transcript -/
def runInter {σ ε ο : Type} (step : σ → ε → σ × ο) (st : Nat → σ) (tr : Nat → List ο) : List (Nat × ε) → (Nat → σ) × (Nat → List ο)
  | [] => (st, tr)
  | (i, e) :: rest =>
    runInter step (upd st i (step (st i) e).1) (upd tr i (tr i ++ [(step (st i) e).2])) rest

/-- the same connection alone -/
def runSolo {σ ε ο : Type} (step : σ → ε → σ × ο) (s : σ) (acc : List ο) : List ε → σ × List ο
  | [] => (s, acc)
  | e :: rest => runSolo step (step s e).1 (acc ++ [(step s e).2]) rest

/-- the events of connection i, in their order -/
def project {ε : Type} (i : Nat) (evs : List (Nat × ε)) : List ε := (evs.filter (fun p => p.1 == i)).map (·.2)

end Mimic.Server
