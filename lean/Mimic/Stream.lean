/-!
L1/L4 — lazy streaming with back-pressure (`MysqlStream.write(..., drain=False)` with the buffer threshold `B`,
`cooperative_iterate`).  A row is represented by the payload size of its packet (≥ 1 byte: a result set has at
least one column); the packet occupies `4 + size` bytes of the buffer.
-/
namespace Mimic.Stream

structure St where
  bufBytes : Nat      -- bytes in the stream buffer
  bufRows : Nat       -- row packets among them
  pulled : Nat        -- rows pulled from the application's source so far
  handed : Nat        -- rows handed to the transport so far
  flushes : List Nat  -- value of `pulled` at every flush (newest first)
deriving Repr

/-- state before the first row: `meta` bytes of metadata packets are already buffered -/
def start (metaBytes : Nat) : St := { bufBytes := metaBytes, bufRows := 0, pulled := 0, handed := 0, flushes := [] }

/-- pull one row and `write(packet, drain=False)`: append; flush when the threshold is reached -/
def pullRow (B : Nat) (st : St) (size : Nat) : St :=
  if B ≤ st.bufBytes + (4 + size) then
    { bufBytes := 0, bufRows := 0, pulled := st.pulled + 1, handed := st.handed + st.bufRows + 1,
      flushes := (st.pulled + 1) :: st.flushes }
  else
    { st with bufBytes := st.bufBytes + (4 + size), bufRows := st.bufRows + 1, pulled := st.pulled + 1 }

def run (B : Nat) (st : St) (sizes : List Nat) : St := sizes.foldl (pullRow B) st

/-- rows pulled when the coroutine first has to wait for the transport (the transport is blocked from the start):
    the index of the first flush, or all rows if the result ends before the buffer fills -/
def pulledAtFirstFlush (B : Nat) (st : St) : List Nat → Nat
  | [] => st.pulled
  | s :: rest =>
    if B ≤ st.bufBytes + (4 + s) then st.pulled + 1
    else pulledAtFirstFlush B (pullRow B st s) rest

/-- `cooperative_iterate`: the positions (number of rows already yielded) at which `sleep(0)` is awaited -/
def yieldPoints (batch n : Nat) : List Nat := (List.range n).filter (fun i => i ≠ 0 ∧ i % batch = 0)

/-- the first yield position at or after row index `k` (ignoring the end of the result) -/
def nextYield (batch k : Nat) : Nat := if k % batch = 0 ∧ k ≠ 0 then k else (k / batch + 1) * batch

/-- A command of another connection arrives while row `k` (0-based) is being pulled.  It is answered when the
    streaming coroutine next yields: the row at the yield position has been pulled already (`+ 1`); if the result
    (n rows) ends first, when the response is complete.  `off` is the cursor position at which a fetch started:
    `handle_stmt_fetch` wraps the cursor (itself a cooperative iterator counting from the cursor's beginning) in a
    second cooperative iterator counting from the fetch's first row (`off = 0` for the other paths). -/
def servedAt (batch n off k : Nat) : Nat :=
  let y := min (nextYield batch k) (off + nextYield batch (k - off))
  if y < n then y + 1 else n

end Mimic.Stream
