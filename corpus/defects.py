"""Replays of the defects found at design time (DESIGN.md section 6), against the real code.

Each function returns (ok, detail): ok=True means the property-relevant behaviour is correct on the
current /repo working tree.  Run:  /venv/bin/python corpus/defects.py [D1 D4a ...]
The per-property checks import these and run the ones belonging to their property first.
"""
from __future__ import annotations

import asyncio
import io
import os
import struct
import sys
from datetime import timedelta

sys.path.insert(0, os.path.join(os.path.dirname(os.path.abspath(__file__)), "..", "harness"))
from lib import *  # noqa: E402,F401,F403
from lib import (parse_coldef, BASE, C, Peer, RecSession, mkserver, pkt, hs_response, com_stmt_execute, com_query,
                 decode_resultset, decode_text_row, decode_binary_row, parse_err, settle, split_packets, Bad,
                 T_VAR_STRING, T_LONGLONG, lenstr)

from mysql_mimic import (IdentityProvider, NativePasswordAuthPlugin, NoLoginAuthPlugin, User, ResultColumn,
                         ColumnType)
from mysql_mimic.control import LocalControl
from mysql_mimic.constants import KillKind


class IDP(IdentityProvider):
    def __init__(self, plugins, users):
        self.p = plugins
        self.u = users

    def get_plugins(self):
        return self.p

    async def get_user(self, n):
        return self.u.get(n)


def std_idp():
    return IDP(
        [NativePasswordAuthPlugin(), NoLoginAuthPlugin()],
        {
            "bob": User("bob", NativePasswordAuthPlugin.create_auth_string("pw"), "mysql_native_password"),
            "nl": User("nl", auth_plugin="mysql_no_login"),
        },
    )


# --------------------------------------------------------------------------- C01
async def D1():
    """failed login → ERR, then nothing may be served"""
    bad = []
    for user, auth in [("mallory", b""), ("bob", b"x" * 20), ("nl", b"")]:
        s = RecSession()
        srv = mkserver([s], identity_provider=std_idp())
        a = Peer(srv)
        out = await a.login(user=user, auth=auth)
        out2 = await a.cmd(b"\x03select * from t")
        calls = [l[0] for l in s.log]
        if not (len(out) == 1 and out[0][1][:1] == b"\xff"):
            bad.append((user, "login reply", out))
        if any(c in ("init", "query") for c in calls) or any(p[:1] != b"\xff" for _, p in out2):
            bad.append((user, "served after failed auth", calls, out2))
        if not a.t.closed:
            bad.append((user, "transport not closed"))
        await a.finish()
    # failed COM_CHANGE_USER
    s = RecSession()
    srv = mkserver([s], identity_provider=std_idp())
    a = Peer(srv)
    from lib import scramble, com_change_user
    await a.greet()
    await a.send(pkt(1, hs_response("bob", auth=scramble(b"pw", a.greeting["nonce"]))))
    a.take()
    out = await a.cmd(com_change_user(b"bob", b"y" * 20, b""))
    out2 = await a.cmd(b"\x03select * from t")
    calls = [l[0] for l in s.log]
    if not (len(out) == 1 and out[0][1][:1] == b"\xff"):
        bad.append(("change_user", "reply", out))
    if "query" in calls or out2 or not a.t.closed or calls.count("close") != 1:
        bad.append(("change_user", "served after failed change_user", calls, out2, a.t.closed))
    await a.finish()
    return (not bad, bad)


async def D1b():
    """a COM_CHANGE_USER that fails with an exception (undecodable clear-text password) must end the connection"""
    from mysql_mimic.auth import AbstractClearPasswordAuthPlugin
    from lib import com_change_user

    class Clear(AbstractClearPasswordAuthPlugin):
        name = "clearpw"

        async def check(self, username, password):
            return username if password == "secret" else None

    idp = IDP([NativePasswordAuthPlugin(), Clear()], {"u": User("u", None, "mysql_native_password"), "carl": User("carl", None, "clearpw")})
    s = RecSession()
    srv = mkserver([s], identity_provider=idp)
    a = Peer(srv)
    await a.login("u")
    out = await a.cmd(com_change_user(b"carl", b"\xff\xfe\x00", b"otherdb", plugin=b"mysql_clear_password"))
    out2 = await a.cmd(b"\x03select * from t")
    calls = [l[0] for l in s.log]
    ok = len(out) == 1 and out[0][1][:1] == b"\xff" and not out2 and "query" not in calls and a.t.closed and calls.count("close") == 1
    await a.finish()
    return ok, (out, out2, calls)


# --------------------------------------------------------------------------- C04
async def D4a():
    """packet header split across two reads"""
    s = RecSession()
    srv = mkserver([s])
    a = Peer(srv)
    await a.login()
    p = pkt(0, b"\x0e")
    await a.send(p[:2])
    await a.send(p[2:])
    out = a.take()
    ok = len(out) == 1 and out[0][1][:1] == b"\x00" and not a.done()
    await a.finish()
    return ok, out


async def D4b():
    """TLS: ClientHello coalesced with SSLRequest"""
    from tls import tls_conversation
    r = await tls_conversation(coalesce=True)
    return r["ok"], r["detail"]


# --------------------------------------------------------------------------- C05
def _col(t, name="c"):
    return ResultColumn(name, t)


async def D5a():
    from mysql_mimic.packets import make_binary_resultrow
    bad = []
    for v in (5, -3, 127, -128, 0, 1):
        row = make_binary_resultrow([v], [_col(ColumnType.TINY)])
        got = decode_binary_row(row, [1])[0]
        if got != v:
            bad.append((v, got))
    return not bad, bad


async def D5b():
    from mysql_mimic.packets import make_binary_resultrow, make_text_resultset_row
    bad = []
    for td in [timedelta(seconds=-1), timedelta(hours=25), timedelta(days=-1, hours=-2),
               timedelta(seconds=1, microseconds=5), timedelta(microseconds=-5), timedelta(days=40, seconds=3)]:
        us = (td.days * 86400 + td.seconds) * 1000000 + td.microseconds
        try:
            got = decode_binary_row(make_binary_resultrow([td], [_col(ColumnType.TIME)]), [11])[0]
        except Bad as e:
            got = ("bad", str(e))
        if got != ("td", us):
            bad.append(("bin", repr(td), got))
        txt = decode_text_row(make_text_resultset_row([td], [_col(ColumnType.TIME)]), 1)[0]
        if parse_time_text(txt) != us:
            bad.append(("text", repr(td), txt))
    return not bad, bad


def parse_time_text(b: bytes):
    """MySQL TIME text: [-]H+:MM:SS[.ffffff]"""
    import re
    m = re.fullmatch(rb"(-?)(\d+):(\d\d):(\d\d)(?:\.(\d{1,6}))?", b)
    if not m:
        return None
    us = int((m.group(5) or b"0").ljust(6, b"0"))
    v = ((int(m.group(2)) * 60 + int(m.group(3))) * 60 + int(m.group(4))) * 1000000 + us
    return -v if m.group(1) else v


async def D5c():
    from mysql_mimic.results import ensure_result_set
    try:
        rs = await ensure_result_set(([(1, "x"), (2, "y")], ["a", "a"]))
        names = [c.name for c in rs.columns]
        rows = [r async for r in rs.rows]
        ok = names == ["a", "a"] and rows == [(1, "x"), (2, "y")] and rs.columns[1].type == ColumnType.STRING
        return ok, (names, rows)
    except Exception as e:  # noqa
        return False, repr(e)


# --------------------------------------------------------------------------- C06
async def _prep_exec(sql: bytes, params, caps=BASE):
    s = RecSession()
    srv = mkserver([s])
    a = Peer(srv)
    await a.login(caps=caps)
    await a.cmd(b"\x16" + sql)
    out = await a.cmd(com_stmt_execute(0, params, caps=caps))
    got = [l[1] for l in s.log if l[0] == "query"]
    await a.finish()
    return got, out


async def D6():
    bad = []
    S = lambda v: (T_VAR_STRING, False, v, b"")  # noqa
    cases = [
        (b"select ? from t", [S(b"a' OR '1'='1")], "select 'a'' OR ''1''=''1' from t"),
        (b"select ? from t", [S(b"\\1")], "select '\\\\1' from t"),
        (b"select ? from t", [S(b"\\g<0>")], "select '\\\\g<0>' from t"),
        (b"select ?, ? from t", [S(b"?"), S(b"b")], "select '?', 'b' from t"),
        (b"select ? from t", [S(b"back\\slash")], "select 'back\\\\slash' from t"),
    ]
    for sql, params, want in cases:
        got, out = await _prep_exec(sql, params)
        if got != [want]:
            bad.append((sql, params[0][2], got, out[:1]))
    return not bad, bad


# --------------------------------------------------------------------------- C07
async def D7():
    """handshake response without NUL after the user name must not hang the loop"""
    import signal

    class Hang(BaseException):
        pass

    fired = []

    def onalarm(*_):
        fired.append(1)
        raise Hang()

    old = signal.signal(signal.SIGALRM, onalarm)
    signal.setitimer(signal.ITIMER_REAL, 3.0)
    try:
        s = RecSession()
        srv = mkserver([s])
        a = Peer(srv)
        await a.greet()
        p = struct.pack("<IIB", int(BASE), 1 << 24, 255) + bytes(23) + b"user_without_nul"
        await a.send(pkt(1, p))
        out = a.take()
        await a.finish()
        if fired:
            return False, "event loop blocked in read_str_null"
        return True, out
    except Hang:
        return False, "event loop blocked in read_str_null"
    finally:
        signal.setitimer(signal.ITIMER_REAL, 0)
        signal.signal(signal.SIGALRM, old)


# --------------------------------------------------------------------------- C09
class WaitSession(RecSession):
    async def query(self, expression, sql, attrs):
        self.log.append(("query", sql))
        if "wait" in sql:
            self.ev = asyncio.Event()
            await self.ev.wait()
        return [(i,) for i in range(3)], ["a"]


async def D9a():
    """KILL QUERY on an idle connection must leave it usable and silent"""
    s = WaitSession()
    ctl = LocalControl(server_id=3)
    srv = mkserver([s], control=ctl)
    a = Peer(srv)
    await a.login()
    cid = a.greeting["cid"]
    await ctl.kill(cid, KillKind.QUERY)
    await settle()
    unsolicited = a.take()
    out = await a.cmd(b"\x0e")
    ok = not unsolicited and len(out) == 1 and out[0] == (1, out[0][1]) and out[0][1][:1] == b"\x00" and not a.done()
    await a.finish()
    return ok, (unsolicited, out)


async def D9b():
    """KILL QUERY <own id>: exactly one response, connection stays usable"""
    s = WaitSession()
    ctl = LocalControl(server_id=3)
    srv = mkserver([s], control=ctl)
    a = Peer(srv)
    await a.login()
    cid = a.greeting["cid"]
    out = await a.cmd(b"\x03KILL QUERY %d" % cid)
    out2 = await a.cmd(b"\x0e")
    ok = len(out) == 1 and len(out2) == 1 and out2[0][1][:1] == b"\x00" and not a.done()
    await a.finish()
    return ok, (out, out2)


async def D9c():
    """second KILL QUERY while the kill-ERR is being drained"""
    s = WaitSession()
    ctl = LocalControl(server_id=3)
    srv = mkserver([s], control=ctl)
    a = Peer(srv)
    await a.login()
    cid = a.greeting["cid"]
    await a.send(pkt(0, b"\x03select wait from t"))
    a.t.block()
    await ctl.kill(cid, KillKind.QUERY)
    await settle()
    await ctl.kill(cid, KillKind.QUERY)
    await settle()
    a.t.unblock()
    await settle()
    out = a.take()
    out2 = await a.cmd(b"\x0e")
    ok = (len(out) == 1 and out[0][1][:1] == b"\xff" and len(out2) == 1 and out2[0][1][:1] == b"\x00"
          and not a.done())
    await a.finish()
    return ok, (out, out2)


async def D9d():
    """KILL QUERY while the drain of the final packet is blocked: no ERR after a complete response"""
    s = WaitSession()
    ctl = LocalControl(server_id=3)
    srv = mkserver([s], control=ctl)
    a = Peer(srv)
    await a.login()
    cid = a.greeting["cid"]
    a.t.block()
    await a.send(pkt(0, b"\x0e"))
    await ctl.kill(cid, KillKind.QUERY)
    await settle()
    a.t.unblock()
    await settle()
    out = a.take()
    out2 = await a.cmd(b"\x0e")
    ok = len(out) == 1 and out[0][1][:1] == b"\x00" and len(out2) == 1 and not a.done()
    await a.finish()
    return ok, (out, out2)


# --------------------------------------------------------------------------- C03
async def D10a():
    s = RecSession()
    srv = mkserver([s])
    a = Peer(srv)
    await a.login()
    out = await a.cmd(b"\x18" + struct.pack("<IH", 77, 0) + b"data")
    out2 = await a.cmd(b"\x0e")
    ok = out == [] and len(out2) == 1 and out2[0][0] == 1
    await a.finish()
    return ok, (out, out2)


async def D10b():
    s = RecSession(schema={"db": {"t": {"c1": "INT", "c2": "TEXT"}}})
    srv = mkserver([s])
    a = Peer(srv)
    await a.login(caps=BASE | C.CLIENT_CONNECT_WITH_DB, db="db")
    out = await a.cmd(b"\x04t\x00")
    try:
        from lib import parse_coldef, parse_eof
        cols = [parse_coldef(p, field_list=True) for _, p in out[:-1]]
        parse_eof(out[-1][1])
        ok = [c["name"] for c in cols] == [b"c1", b"c2"] and [q for q, _ in out] == [1, 2, 3]
    except Exception as e:  # noqa
        ok = False
        out = (repr(e), out)
    # zero columns: only the terminator
    out0 = await a.cmd(b"\x04nosuch\x00")
    ok0 = len(out0) == 1 and out0[0][1][:1] == b"\xfe"
    await a.finish()
    return ok and ok0, (out, out0)


async def D10c():
    s = RecSession()
    srv = mkserver([s])
    a = Peer(srv)
    caps = BASE | C.CLIENT_DEPRECATE_EOF
    await a.login(caps=caps)
    out = await a.cmd(b"\x16select ? from t")
    kinds = [p[:1] for _, p in out]
    ok = len(out) == 2 and kinds[0] == b"\x00" and kinds[1] == b"\x03"  # OK block + 1 param def, no EOF
    await a.finish()
    return ok, out


# --------------------------------------------------------------------------- C11
async def D11():
    def beh(sess, e, sql, attrs):
        return [(i,) for i in range(7)], [ResultColumn("a", ColumnType.LONGLONG)]

    s = RecSession(beh)
    srv = mkserver([s])
    a = Peer(srv)
    await a.login()
    await a.cmd(b"\x16select a from t")
    await a.cmd(com_stmt_execute(0, [], flags=1))
    got = []
    flags = []
    for n in [2, 2, 0, 5, 1]:
        out = await a.cmd(b"\x1c" + struct.pack("<II", 0, n))
        rows = [decode_binary_row(p, [8])[0] for _, p in out[:-1]]
        got.append(rows)
        flags.append(struct.unpack_from("<H", out[-1][1], 3)[0])
    await a.finish()
    want = [[0, 1], [2, 3], [], [4, 5, 6], []]
    wantf = [0x40, 0x40, 0x40, 0x80, 0x80]
    return got == want and flags == wantf, (got, flags)


# --------------------------------------------------------------------------- C13
async def D13():
    s = RecSession(schema={"db": {"t": {"c1": "INT"}}})
    srv = mkserver([s])
    a = Peer(srv)
    await a.login()
    await a.cmd(b"\x03USE information_schema")
    o1 = await a.cmd(b"\x03SELECT * FROM db.t")
    o2 = await a.cmd(b"\x03INSERT INTO db.t VALUES (1)")
    o3 = await a.cmd(b"\x03SELECT table_name FROM tables WHERE table_schema = 'db'")
    q = [l[1] for l in s.log if l[0] == "query"]
    ok = q == ["SELECT * FROM db.t", "INSERT INTO db.t VALUES (1)"] and o3 and o3[-1][1][:1] != b"\xff"
    await a.finish()
    return ok, (q, [p[:20] for _, p in o1[:1] + o2[:1] + o3[-1:]])


async def D13b():
    """a comment after the last ';' is not a statement: the application must see one call, the client its result"""
    s = RecSession(behaviour=lambda se, e, sql, at: ([(len(se.log),)], ["n"]))
    srv = mkserver([s])
    a = Peer(srv)
    await a.login()
    outs = []
    for sql in [b"select a from t; -- done", b"select a from t; /* x */", b"select a from t -- c\n; /* x */ ;"]:
        n0 = len([l for l in s.log if l[0] == "query"])
        o = await a.cmd(b"\x03" + sql)
        outs.append((len([l for l in s.log if l[0] == "query"]) - n0, o[0][1][:1] if o else None))
    await a.finish()
    return all(n == 1 and first == b"\x01" for n, first in outs), outs


async def D13c():
    """a middleware installed by the application at the head of the chain must run once per statement"""
    s = RecSession()
    calls = []

    async def mw(q):
        calls.append(q.expression.sql())
        return await q.next()
    s.middlewares.insert(0, mw)
    srv = mkserver([s])
    a = Peer(srv)
    await a.login()
    await a.cmd(b"\x03select a from t; insert into t values (1)")
    await a.finish()
    return calls == ["SELECT a FROM t", "INSERT INTO t VALUES (1)"], calls


# --------------------------------------------------------------------------- C14
async def D14():
    bad = []
    for stmt in [b"SET time_zone='bogus'", b"SET character_set_results='bogus'", b"SET NAMES dec8",
                 b"SET character_set_client='bogus'"]:
        s = RecSession()
        srv = mkserver([s])
        a = Peer(srv)
        await a.login()
        o1 = await a.cmd(b"\x03" + stmt)
        o2 = await a.cmd(b"\x03select a from t")
        o3 = await a.cmd(b"\x03SET time_zone='UTC'")
        accepted = o1 and o1[0][1][:1] == b"\x00"
        usable = o2 and o2[-1][1][:1] == b"\xfe" and o3 and o3[0][1][:1] == b"\x00" and not a.done()
        if accepted and not usable:
            bad.append((stmt, [p[:30] for _, p in o1 + o2[-1:] + o3]))
        if not accepted and not usable:
            bad.append((stmt, "rejected but session unusable"))
        await a.finish()
    return not bad, bad


# --------------------------------------------------------------------------- C15
async def D15():
    from mysql_mimic.charset import CharacterSet
    got = (CharacterSet.utf16.encode("A"), CharacterSet.utf32.encode("A"))
    return got == (b"\x00A", b"\x00\x00\x00A"), got


# --------------------------------------------------------------------------- C16
async def D16():
    s = RecSession(schema={"db": {"t": {"c1": "INT"}}, "db2": {"t": {"z": "INT"}}})
    srv = mkserver([s])
    a = Peer(srv)
    await a.login()

    async def q(sql):
        out = await a.cmd(b"\x03" + sql)
        try:
            rs = decode_resultset([p for _, p in out], a.caps)
            return [decode_text_row(r, len(rs["cols"]))[0] for r in rs["rows"]]
        except Bad as e:
            return ("bad", str(e), out[:1])

    r1 = await q(b"SHOW VARIABLES LIKE 'vers'")
    r2 = await q(b"SHOW VARIABLES LIKE 'version'")
    r3 = await q(b"DESCRIBE db2.t")
    r4 = await q(b"SHOW VARIABLES LIKE 'version_%'")
    await a.finish()
    ok = r1 == [] and r2 == [b"version"] and r3 == [b"z"] and r4 == [b"version_comment"]
    return ok, (r1, r2, r3, r4)


async def D16b():
    """a mapping whose first database declares no tables must still be read as databases → tables → columns"""
    s = RecSession(schema={"empty_first": {}, "db2": {"t": {"c": "INT"}}})
    srv = mkserver([s])
    a = Peer(srv)
    await a.login()

    async def q(sql):
        out = await a.cmd(b"\x03" + sql)
        try:
            rs = decode_resultset([p for _, p in out], a.caps)
            return [decode_text_row(r, len(rs["cols"]))[0] for r in rs["rows"]]
        except Bad as e:
            return ("bad", str(e), out[:1])
    r1 = await q(b"SHOW TABLES FROM db2")
    r2 = await q(b"SHOW COLUMNS FROM db2.t")
    r3 = await q(b"SELECT schema_name FROM information_schema.schemata WHERE schema_name = 'db2'")
    await a.finish()
    return r1 == [b"t"] and r2 == [b"c"] and r3 == [b"db2"], (r1, r2, r3)


async def D16d():
    """COM_FIELD_LIST for a column that declares a default value: the column definition must stay decodable
    (default = one length-encoded string)"""
    from mysql_mimic.schema import Column, InfoSchema, info_schema_tables

    class S(RecSession):
        async def schema(self):
            return InfoSchema(info_schema_tables([Column(name="c", type="INT", table="t", schema="db", default="42"),
                                                  Column(name="d", type="TEXT", table="t", schema="db")]))
    s = S()
    srv = mkserver([s])
    a = Peer(srv)
    await a.login()
    out = await a.cmd(b"\x04t\0")
    got = []
    try:
        for _, p in out[:-1]:
            cd = parse_coldef(p, field_list=True)
            got.append((cd["name"], cd["default"]))
    except Bad as e:
        got.append(("bad", str(e)))
    await a.finish()
    return got == [(b"c", b"42"), (b"d", None)], got


# --------------------------------------------------------------------------- C03
async def D3e():
    """an ERR whose message cannot be encoded in character_set_results must still reach the client (one ERR, connection alive)"""
    s = RecSession()
    srv = mkserver([s])
    a = Peer(srv)
    await a.login()
    r0 = await a.cmd(com_query(b"SET character_set_results = 'latin1'"))
    r1 = await a.cmd(com_query("SET @@\u4e2d\u6587 = 1".encode()))
    r2 = await a.cmd(b"\x0e")
    ok = (len(r1) == 1 and r1[0][1][:1] == b"\xff" and r1[0][0] == 1 and len(r2) == 1 and r2[0][1][:1] == b"\x00")
    await a.finish()
    return ok, (r0, r1, r2)


# --------------------------------------------------------------------------- C12
async def D12b():
    """a client that reads slowly (real socket pair, small kernel buffers): the transport keeps a view of what the
    socket did not take; the stream must survive that and deliver every byte in order"""
    import socket
    from mysql_mimic.stream import MysqlStream
    a, b = socket.socketpair()
    a.setsockopt(socket.SOL_SOCKET, socket.SO_SNDBUF, 4096)
    b.setsockopt(socket.SOL_SOCKET, socket.SO_RCVBUF, 4096)
    reader, writer = await asyncio.open_connection(sock=a)
    st = MysqlStream(reader, writer)
    got = bytearray()
    b.setblocking(False)
    done = asyncio.Event()

    async def slow():
        while not done.is_set() or True:
            await asyncio.sleep(0.002)
            try:
                d = b.recv(1 << 16)
            except BlockingIOError:
                if done.is_set():
                    return
                continue
            if not d:
                return
            got.extend(d)
    t = asyncio.ensure_future(slow())
    want = bytearray()
    err = None
    try:
        for i in range(12):
            payload = bytes([65 + i]) * 100000
            want += struct.pack("<I", len(payload))[:3] + bytes([i]) + payload
            await st.write(payload, drain=(i % 3 == 2))
        await st.drain()
    except Exception as e:  # noqa
        err = "%s: %s" % (type(e).__name__, e)
    await asyncio.sleep(0.05)
    done.set()
    await t
    writer.close()
    b.close()
    return err is None and bytes(got) == bytes(want), (err, len(got), len(want))


# --------------------------------------------------------------------------- C18
async def D18():
    ids = {LocalControl(server_id=0).server_id for _ in range(8)}
    return ids == {0}, ids


ALL = {
    "D1": ("C01", D1), "D1b": ("C01", D1b), "D4a": ("C04", D4a), "D4b": ("C04", D4b), "D5a": ("C05", D5a), "D5b": ("C05", D5b),
    "D5c": ("C05", D5c), "D6": ("C06", D6), "D7": ("C07", D7), "D9a": ("C09", D9a), "D9b": ("C09", D9b),
    "D9c": ("C09", D9c), "D9d": ("C09", D9d), "D10a": ("C03", D10a), "D10b": ("C03", D10b),
    "D10c": ("C03", D10c), "D11": ("C11", D11), "D13": ("C13", D13), "D13b": ("C13", D13b), "D13c": ("C13", D13c), "D14": ("C14", D14), "D15": ("C15", D15),
    "D3e": ("C03", D3e), "D12b": ("C12", D12b), "D16": ("C16", D16), "D16b": ("C16", D16b), "D16d": ("C16", D16d), "D18": ("C18", D18),
}


def run_one(name):
    try:
        return asyncio.run(ALL[name][1]())
    except Exception as e:  # noqa
        import traceback
        return False, "replay crashed: " + traceback.format_exc(limit=3)


if __name__ == "__main__":
    names = sys.argv[1:] or list(ALL)
    for n in names:
        ok, detail = run_one(n)
        print(("PASS " if ok else "FAIL ") + n, ALL[n][0], "" if ok else repr(detail)[:400])
