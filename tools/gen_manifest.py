#!/usr/bin/env python3
"""Regenerate MANIFEST.json from the table below (keeps it schema-valid at all times)."""
import json, os
V = os.path.abspath(os.path.join(os.path.dirname(__file__), ".."))
props = [json.loads(l) for l in open(os.path.join(V, "properties.jsonl"))]

TB = ("Trusted: Lean 4.33 kernel; axioms propext/Classical.choice/Quot.sound only (audited by #print axioms on every "
      "property theorem, no sorry/native_decide/bv_decide); harness/extract.py; the correspondence harness. ")

CLAIMED = {
 "C18": dict(
   technique="Lean 4 proof (induction over add/remove histories, pigeonhole) + extracted constants + differential execution of LocalControl",
   text="Theorems in lean/MimicProps/C18.lean hold for every arrival/departure history of the LocalControl model (nodup, "
        "prefix = configured server id incl. 0, add succeeds iff < 2^16 live, recovery after a departure). The model is tied "
        "to the code by constants re-extracted on every run and by op-by-op comparison with the real LocalControl on random "
        "histories (real N with wrap-arounds; small N with full registries), and id consistency is checked through a real server. "
        "CODE LEVEL: LocalControl._new_connection_id / add / remove and utils.seq are translated statement by statement on every run "
        "(harness/pytrans2.py -> Mimic/Extracted/ControlCode.lean) and proved to refine the model for every history (code_refines_model, code_ids_unique_and_admission).",
   note=TB + "Modelled, not verified: Python dict semantics, utils.seq; random.randint for an unset server id is outside the property.",
   design="DESIGN.md section 4, C18"),
}
CLAIMED["C04"] = dict(
   technique="Lean 4 proof (strong induction over payload length / buffered bytes; segmentation independence of an incremental reader) + extracted literals + differential execution of MysqlStream",
   text="Theorems in lean/MimicProps/C04.lean: write/read round trip for every payload and packet-size limit 0<m<2^24 instantiated at the "
        "extracted 0xFFFFFF (packet count len/M+1, consecutive sequence ids), independence of the reader from the segmentation of the "
        "byte stream (feedAll = feed of the concatenation, incl. sequence errors), and order/loss-freedom of the write buffer for every "
        "program of write(drain?)/drain. Tie: literals, header-read method, buffer size and sequence modulus re-extracted each run; "
        "per-chunk comparison of the real MysqlStream over a real StreamReader with the model (real class and class recompiled from the "
        "current source with a small packet size); real-server conversation at every 1-cut and sampled/exhaustive 2-cuts; in-memory TLS. "
        "CODE LEVEL: MysqlStream.write / drain / reset_seq are translated on every run (Mimic/Extracted/StreamCode.lean) and proved equal to the "
        "model's buffered writer (write_is_code, code_write_preserves_order, code_max_packet); the header codecs are the translated uint_3 / uint_1. "
        "Partial: the TLS switch loses bytes coalesced with the SSLRequest (known finding D4b); the TLS engine itself is trusted.",
   note=TB + "Modelled, not verified: asyncio.StreamReader.readexactly / feed_data, StreamWriter; ssl. Payloads >= 16 MiB are compared by packet (seq,len) list and independent reassembly, not byte-for-byte in Lean.",
   design="DESIGN.md section 4, C04")

CLAIMED["C11"] = dict(
   technique="Lean 4 proof (list induction over fetch-size sequences; frame lemmas over the statement registry; refinement of the handlers translated from the source on every run) + differential execution of prepare/execute/fetch/reset/close programs",
   text="Theorems in lean/MimicProps/C11.lean: a fetch returns take n / leaves drop n and is flagged last-row-sent iff it could not be filled; for every "
        "result and every sequence of fetch sizes the concatenated rows are the first sum(sizes) rows (each once, in order); commands on statement a leave "
        "statement b untouched; re-execute / reset / close discard the cursor; unknown ids yield ERR. Tie: the real connection is driven with exhaustive "
        "(N<=5 quick, N<=8 thorough) and random programs (sync/async/raising sources, failing application, fetch sizes up to 2^32-1) and compared "
        "answer-by-answer with the model; the property oracle is evaluated on the decoded rows. "
        "CODE LEVEL: the coroutine handlers handle_stmt_prepare / fetch / reset / close are translated statement by statement on every run "
        "(harness/pytrans3.py -> Mimic/Extracted/HandlersCode.lean: effects as an event list, exceptions carrying the object state, object aliasing, "
        "async-generator iteration with break) and proved to be the model's steps for every connection state and cursor, raising ones included "
        "(fetch_is_code, reset_is_code, close_is_code, prepare_is_code); code_fetches_in_order states the property on the code's own bytes for every "
        "sequence of fetch sizes; the statement-id space is the extracted _MAX_PREPARED_STMT_ID (stmt_id_space); independence on the code itself: a statement "
        "command naming k leaves every registry entry j != k untouched in every outcome (code_statement_commands_touch_only_their_statement) and "
        "COM_QUERY / PING / DEBUG / INIT_DB / FIELD_LIST leave the whole registry as it was (code_unrelated_commands_leave_cursors).",
   note=TB + "Rows are opaque identifiers in the model (their encoding is C05). Async-generator finalisation by the interpreter is not modelled.",
   design="DESIGN.md section 4, C11")
CLAIMED["C12"] = dict(
   technique="Lean 4 proof (buffer invariant by induction over any row sequence; connection-machine frame lemma for parked coroutines; arithmetic of cooperative yield points) + extracted constants / loop table + differential execution under transport stop/resume schedules",
   text="Theorems in lean/MimicProps/C12.lean: for every threshold B, metadata size, result length and row widths the rows pulled and not yet handed to the "
        "transport never exceed (B-1)/5 (lookahead_bounded, instantiated with the extracted buffer size); with a drain per packet nothing is pulled ahead; a "
        "coroutine parked in drain() does nothing until the transport resumes (blocked_pulls_nothing, on the connection machine); a command of another "
        "connection arriving at row k of an arbitrarily long result is answered at most batch+1 rows later (served_within_batch) and the three row loops of the "
        "code are cooperative (row_loops_cooperative, over a table extracted from the source each run). inference_lookahead_partial + witness theorem for the "
        "known finding D12. Tie: extraction (buffer size, batch size, loop/drain table) + the real connection over a transport that pauses on a schedule: rows "
        "pulled from an instrumented source at every transport write = model flush points (text, binary, fetch; bounded and unbounded sources; widths from NULL "
        "to wider than the buffer), rows pulled when a second connection's PING is answered = servedAt. The property's oracle (no write / bounded pulls after "
        "pause, nothing pulled while parked, witness served within batch+1) runs on every case.",
   note=TB + "asyncio's flow-control contract (pause_writing / drain) is the boundary: kernel socket buffers are not modelled. Known finding D12 (inference on an all-NULL bare column) is listed in known_findings.json.",
   design="DESIGN.md section 4, C12")
CLAIMED["C13"] = dict(
   technique="Lean 4 proof (list induction over statement lists and selection histories; case analysis over the extracted middleware chain) + extracted chain / interceptor table / catalog databases + differential execution of grammar-generated statement lists",
   text="Theorems in lean/MimicProps/C13.lean: the code's middleware list (extracted each run) maps onto the model's interceptors, each exactly once; "
        "handle_query passes the client's own text and attributes; for every statement list the history has one entry per statement in textual order (a prefix "
        "closed by the raising statement if one raises); each entry is the chain's decision under the database selected at that point; that decision is "
        "'library' iff control statement / FROM-less select / catalog-only query (library_iff); the application's log is exactly the forwarded statements in "
        "order; the client gets the last statement's result; the database observed follows handshake / COM_INIT_DB / USE / COM_CHANGE_USER for every history. "
        "Tie: extraction + a real connection driven with grammar-generated texts (all built-in kinds, selects with FROM/JOIN/subquery/UNION/CTE/EXISTS over "
        "user, catalog and ambiguous tables, DML/DDL, EXPLAIN/DESCRIBE SELECT, raising statements, comments, empty statements) by COM_QUERY with/without query "
        "attributes and by prepare/execute after selection histories; model projection vs application call log, USE log, outcome and database. An independent "
        "oracle written from the property text runs on every case.",
   note=TB + "sqlglot's parser decides what the statements of a text are and which tables a query reads; the content of library-produced results is not compared here. Defect D13b found and fixed while building this check.",
   design="DESIGN.md section 4, C13")
CLAIMED["C14"] = dict(
   technique="Lean 4 proof (finite-map refinement of the variable store; lock-step induction over SET_VAR assignment / restore lists; well-typedness invariant; kernel-evaluated facts about the extracted schema) + extracted schema / charsets / middleware shape + differential execution of SET / hint programs with the full listing compared after every statement",
   text="Theorems in lean/MimicProps/C14.lean, for every schema and charset list with self-accepting defaults (proved of the extracted ones by kernel evaluation): "
        "get_after_set, set_frame, default_restores, null_restores, unknown_is_error, list_complete_sorted; readonly_immutable (no SET statement in any spelling "
        "changes a non-dynamic variable); hinted_restores (for every hint list - duplicates, unknown and read-only names, wrong-typed values - and every body, "
        "succeeding or raising, every variable reads the same after the statement as before; the restore loop's exception precedence is modelled); "
        "well-typedness is preserved by every client operation, hence accepted_timezone_usable / accepted_charset_usable. Tie: extraction + programs of SET "
        "statements in every spelling, reads and hinted statements over every variable with right- and wrong-typed values against a real connection; after "
        "every statement the full SHOW VARIABLES listing equals the model's store, NOW()/CURDATE()/CURTIME() are shifted by the model's offset (systematic sweep "
        "of time-zone spellings), the handshake announces the version variable. Failing-input search when model and code disagree: the same statements on a server in a "
        "fresh interpreter must give the same listings (state surviving in the process between sessions); a quoted string assigned to a string-typed variable reads "
        "back as that string (ground truth without the model).",
   note=TB + "Python's int()/str() on floats is supplied by the harness; strings for int variables are ASCII without underscores; utf16/utf32/ucs2 as client character set are exercised by C15, not here. Defect D13c (first middleware ran twice) found and fixed while building this check.",
   design="DESIGN.md section 4, C14")
CLAIMED["C15"] = dict(
   technique="Lean 4 proof (request theorems over the variable-store model: accepted request = exactly that set, rejected = unchanged; well-typedness invariant; kernel-evaluated lemmas over the whole extracted collation / character-set catalogue and over the table of codec call sites) + differential execution with reference codecs",
   text="Theorems in lean/MimicProps/C15.lean: every .decode( site of the parsers uses the client set and every .encode( site the results or the column's set, "
        "and the two selectors read the two session variables (over a table extracted from packets.py / results.py / connection.py each run); catalogue "
        "lemmas (every collation maps to a set, default collations map back, ids unique and one byte, usable iff codec); SET NAMES and SET CHARACTER SET are "
        "atomic and exact, the handshake / COM_CHANGE_USER collation selects exactly its set or ends the connection, other assignments never touch the sets; "
        "after every history both sets have a codec (always_usable); the set that decodes command n is a function of the commands before it. CODE LEVEL: the "
        "translated parsers decode with the negotiated client set only (code_query_uses_only_client_charset, code_handshake_uses_announced_charset). Codecs are "
        "abstract in the proof (text_arrives_unchanged is stated over any codec with the round-trip property). Tie: extraction + a real connection: every "
        "collation id in the handshake, histories of SET NAMES / SET CHARACTER SET / variable assignments / COM_CHANGE_USER (accepted and rejected), the sets "
        "in force after each command vs the model's trace; on every probe a reference client with codecs chosen from MySQL's definition of each of the 30 "
        "usable sets sends repertoire strings through SQL text, query attributes, COM_INIT_DB, COM_FIELD_LIST, COM_CHANGE_USER, handshake user / database, "
        "prepared-statement text and string parameters (inline and long data split inside a character) and decodes column names, error messages and cells.",
   note=TB + "Python's codecs are trusted and compared with the reference codec per sampled repertoire. latin1 is exercised outside 0x80-0x9F (MySQL's latin1 is cp1252 there). ucs2/utf16/utf16le/utf32 cannot frame the NUL-terminated strings of the handshake and are exercised as results / column sets and as client sets for length-delimited fields only.",
   design="DESIGN.md section 4, C15")
CLAIMED["C16"] = dict(
   technique="Lean 4 proof (nested association-list induction for the flattened mapping; dedup lemmas; induction on LIKE patterns relating the spec to the translated regex's match relation; kernel-evaluated facts about the extracted built-in catalog) + extracted built-ins / WHERE templates / like_to_regex branches + differential execution over random mappings and patterns",
   text="Theorems in lean/MimicProps/C16.lean: for every well-formed mapping (unique keys per level) and declared table, the catalog's columns for that "
        "(catalog, database, table) are exactly the declared ones in declaration order (table_columns_exactly_declared), membership iff declared, ordinals "
        "count from 0; every database / table key exactly once (dedup lemmas); each SHOW form denotes exactly its FROM / LIKE subset (show_*_exact); "
        "like_regex_equiv: for all patterns and strings the translated regex under fullmatch accepts iff SQL LIKE does, plus like_literal / like_percent / "
        "like_underscore; built-in databases are always listed (over the extracted INFO_SCHEMA). Tie: extraction + a real session over random mappings of "
        "depth 2/3/4 (names with _ and $, shared names across databases and catalogs), schemas that change between statements (mutated in place or handed "
        "out as fresh copies), all current-database settings; SHOW DATABASES / [FULL] TABLES / [FULL] COLUMNS (FROM, IN, db.t), DESCRIBE, COM_FIELD_LIST "
        "(every column definition decoded strictly), INFORMATION_SCHEMA.SCHEMATA / TABLES / COLUMNS incl. ordinal positions, SHOW VARIABLES LIKE; like_to_regex "
        "and the executor's LIKE directly against the model. An independent oracle (expected rows computed from the mapping with its own LIKE matcher) runs "
        "on every answer.",
   note=TB + "sqlglot's executor evaluates the catalog SELECTs and its parser decides which SHOW spellings exist (SHOW COLUMNS IN is not parsed). A depth-2 mapping lives in a database named ''. Known finding D16c (empty databases / tables are not listed); defect D16b (dict_depth) found and fixed while building this check.",
   design="DESIGN.md section 4, C16")
CLAIMED["C08"] = dict(
   technique="Lean 4 proof (projection theorem for interleaved runs of any per-connection step function, instantiated with the whole per-connection model; kernel-evaluated audit of the extracted inventory of shared mutable state) + differential execution: interleaved vs alone, and vs the model's per-connection transcript",
   text="Theorems in lean/MimicProps/C08.lean: projection_eq_solo - for every per-connection step function, family of initial states and interleaving, "
        "connection i's transcript and final state equal those of its own events run alone; others_invisible / interleaving_irrelevant; the instance for the "
        "driver's step over Mimic.Drv.St (framing, sequence ids, variables, prepared statements, cursors, character sets); shared_state_audit - the extracted "
        "inventory of module-level / class-level mutable objects, of stores into them and of attribute stores of objects shared between connections equals "
        "the reviewed one (constant tables never written, one pure memo, the context variable, the registry). Tie: extraction over the whole package + K in "
        "{2,3,4} real connections with programs of SET / SET NAMES / reads / SHOW VARIABLES / prepare / execute / fetch / reset / close / COM_INIT_DB / "
        "queries completing later / text results over suspending row sources, packets interleaved at event-loop-iteration granularity, in-flight calls "
        "released in random order, transports pausing; overlapping handshakes on shared plugin objects. Oracle: byte-exact output of every connection = output "
        "of the same program alone on a fresh server; two absolute oracles that need no second run (module-level memos survive from run to run inside one process): "
        "a column named U+00E9 by the application is encoded in THIS connection's character_set_results, and the catalog of a per-user schema lists exactly this "
        "user's databases and tables; correspondence: every response = the model's @i transcript.",
   note=TB + "Each connection has its own application session object. Granularity is the event-loop iteration (asyncio has no preemption inside one). KILLs are C09's subject.",
   design="DESIGN.md section 4, C08")
CLAIMED["C05"] = dict(
   technique="Lean 4 proof (round-trip theorems for NULL bitmap, binary rows of all encoder classes, text framing, decimal text, durations; row-preservation of inference) + extracted encoder tables + byte-for-byte differential execution",
   text="Theorems in lean/MimicProps/C05.lean: NULL-bitmap round trip for every size/offset/pattern; binary rows of well-formed values of every supported "
        "encoder class decode to the application's values for every shape; integers are carried exactly iff in range; TIME round trip (binary) for every "
        "duration < 2^32 days and field-wise for the text form; text-row framing for cells of any length; decimal text; type inference preserves the row "
        "sequence; inference order and encoder tables as extracted. Tie: tables re-extracted each run; real make_*_row / infer_type / _ensure_result_cols "
        "compared byte-for-byte with the model on typed random rows; independent client decoding of the real packets at unit level and end-to-end. "
        "CODE LEVEL: the wire primitives of types.py, the temporal encoders of results.py, NullBitmap (read and write side) and make_binary_resultrow / "
        "make_text_resultset_row are translated on every run and proved equal to the model (binary_row_is_code, text_row_is_code, code_binary_row_layout, "
        "temporal_encoders_are_code, code_lenenc_roundtrip). Clients that offer CLIENT_OPTIONAL_RESULTSET_METADATA decode by the negotiated flags. "
        "Partial: float packing/str(float) and codecs are opaque bytes.",
   note=TB + "Modelled, not verified: struct float packing, str(float), Python codecs, datetime arithmetic of timedelta normalisation (compared differentially).",
   design="DESIGN.md section 4, C05")

CLAIMED["C06"] = dict(
   technique="Lean 4 proof (lexer round trip of the rendered literal, compositional single-pass substitution law, template-grammar theorem, parameter-block decoding round trip, also for the parameter decoder translated from the source on every run) + extracted regex/escape facts + differential execution",
   text="Theorems in lean/MimicProps/C06.lean: every string value rendered as a literal lexes back to itself and ends exactly at its closing quote "
        "(for every escape table with \\\\ -> \\); substitution is a single pass (interp (a++b) = interp a then interp b on the left-over values), "
        "leaves placeholder-free text unchanged and consumes exactly phCount values; on the property's template grammar it replaces exactly "
        "the ? outside quoted runs (named _partial: mixed quote kinds inside one literal are outside the quantifier); _read_params decodes any "
        "client-encoded block (NULL bitmap, all integer widths/signedness, strings) and long data concatenates in send order; CODE LEVEL: "
        "_read_params and _read_param_value of packets.py are translated statement by statement on every run (harness/pytrans2.py -> "
        "Mimic/Extracted/ParsersCode.lean) and proved equal to the model for every input (read_params_is_code, code_params_decode_roundtrip). "
        "The COM_STMT_EXECUTE path (_encode_param_as_sql, _interpolate_params, parse_com_stmt_execute) and the handlers "
        "handle_stmt_send_long_data / handle_stmt_reset / handle_stmt_prepare are translated too (parse_com_stmt_execute_is_code, code_literal_lexes_back, "
        "send_long_data_is_code, reset_abandons_long_data_code, code_prepare_announces_placeholders). Tie: translated parsers and handlers; regex source, "
        "escape replacements, single-pass call shape and string type set re-extracted; real prepare/long-data/execute (incl. failing "
        "applications, repeated executions) compared with the model; tokenizer oracle on the SQL the application receives.",
   note=TB + "Modelled, not verified: Python re (only the fragment REGEX_PARAM uses is given a semantics), sqlglot's tokenizer (oracle), str(float).",
   design="DESIGN.md section 4, C06")
CLAIMED["C17"] = dict(
   technique="Lean 4 proof (round trip client encoding -> parse_com_query / parse_com_stmt_execute, dict semantics, independence of SQL from attributes; parse_com_query translated from the source on every run and proved equal to the model) + differential execution",
   text="Theorems in lean/MimicProps/C17.lean: with the capability, the payload a client builds from any attribute list and SQL text parses to "
        "exactly that text and mapping (dict semantics; identity for distinct names); without it the whole payload is the SQL text and the mapping "
        "is empty for every payload; for execute the first numParams entries are bound and the rest is the mapping, and the SQL depends only on the "
        "positional values; CODE LEVEL: parse_com_query (with _read_params, NullBitmap, read_str_len ...) is translated from packets.py on every run "
        "(harness/pytrans2.py) and proved equal to the model for every payload (parse_com_query_is_code, code_attrs_roundtrip_query, "
        "code_no_attrs_without_capability). Tie: translated parsers; real connection driven with attribute lists of 0..17 entries of all kinds, 0..8 parameters, SQL starting with "
        "0x00-0x02, both capability settings, compared with the model; oracle on what the application received.",
   note=TB + "Modelled, not verified: codec (utf8 in these runs), struct float unpacking (bit patterns compared).",
   design="DESIGN.md section 4, C17")

CLAIMED["C02"] = dict(
   technique="Lean 4 proof (xor algebra over an abstract 20-byte hash: completeness, soundness, sha corollary under an explicit second-preimage hypothesis; nonce well-formedness over the extracted alphabet; plugin step machines) + executable SHA-1 + differential execution of all four routes",
   text="Theorems in lean/MimicProps/C02.lean: the scramble of the current or secondary password under the verification nonce is accepted (also junk-extended); "
        "acceptance implies the first 20 bytes are p XOR H(nonce++stored) for a preimage p of a stored hash (and equal the scramble under an explicit "
        "second-preimage hypothesis); nonces are 20 bytes from the extracted NUL-free alphabet and survive the greeting/rstrip; a fresh challenge "
        "consumes 20 new draws and is the nonce later verified; COM_CHANGE_USER reuses exactly the greeting's bytes; clear-password accepts iff the "
        "check accepts; no-login never accepts; OK is written iff a plugin decision vouched for the identity. Tie: the real Connection is driven over all "
        "four routes with random identity providers and responses and compared packet-by-packet with Mimic.Auth.authenticate running the executable "
        "SHA-1 (itself compared with hashlib); overlapping handshakes on shared plugin objects; reference predicate with hashlib as oracle. "
        "CODE LEVEL: utils.xor and read_str_null are translated on every run and proved equal to the model's xorb / readNul (xor_is_code, "
        "clear_password_decoding_is_code: the clear-password plugin hands check exactly the bytes before the first NUL, or all of them when unterminated). "
        "Partial: non-repetition of random draws (SystemRandom) is not provable.",
   note=TB + "Modelled, not verified: hashlib.sha1 (reference for the SHA-1 model), random.SystemRandom (replaced by a recording PRNG in the harness), bytes.fromhex.",
   design="DESIGN.md section 4, C02")

CLAIMED["C03"] = dict(
   technique="Lean 4 proof (invariant by induction over events of a connection machine generic in the handler script; per-command script lemmas against a strict client grammar) + differential execution of command programs",
   text="Theorems in lean/MimicProps/C03.lean: for every handler script (no life-cycle ops) and every interleaving of internal events (application resuming, "
        "client blocking/unblocking, kills, client EOF) the bytes written for a command are the script's emissions or a prefix closed by exactly one ERR, and "
        "an idle connection writes nothing (quiescence); for every command of the supported set, both DEPRECATE_EOF settings and every application plan the "
        "handler script's undisturbed response is accepted by a strict client grammar (OK / ERR / complete result set / cursor-open / prepare-OK block / "
        "field list / nothing for no-reply commands incl. unknown ids). Tie: random command programs through the real Connection compared event by event "
        "with Mimic.Conn + Mimic.Script; strict wire-level decoder, consecutive sequence ids and silence after the response as oracle. "
        "CODE LEVEL: thirteen coroutine handlers, the dispatch, one iteration of command_phase and its while-True loop are translated from connection.py on every run "
        "(harness/pytrans3.py -> Mimic/Extracted/HandlersCode.lean); the scripts' write/drain skeleton is derived from that code for every result size (*_script_is_code), "
        "a whole COM_QUERY exchange is stated on the code (code_query_exchange), one iteration writes the handler's output, one ERR exactly on failure and the sequence "
        "reset (command_step_is_code), and for EVERY packet list the generated loop ends only by COM_QUIT, ignores what follows it, composes over concatenation, resets "
        "the sequence after every command and never retracts what was written (code_loop_ends_only_by_quit, code_loop_ignores_after_quit, code_loop_composes, "
        "code_every_command_resets_sequence, code_nothing_written_is_retracted, code_capabilities_constant - the last two assume the same of the untranslated handler; with the generated handle_change_user plugged in the assumption is about _change_user alone: code_conversations_with_change_user).",
   note=TB + "Modelled, not verified: asyncio (A1-A4 of DESIGN.md); the 32 KiB threshold flush is abstracted (responses smaller than the buffer); sequence numbers are checked by the oracle, not in Lean.",
   design="DESIGN.md section 4, C03")

CLAIMED["C09"] = dict(
   technique="Lean 4 proof (invariants of the connection machine by induction over event sequences with kills at every boundary; witness theorem for the known finding) + differential execution with kills injected at every event boundary",
   text="Theorems in lean/MimicProps/C09.lean: from any alive state, any sequence of application resumes, client block/unblock, QUERY kills (repeated, "
        "back-to-back) and their delivery keeps the connection alive (never closed, never on the termination path); a CONNECTION kill followed by its "
        "delivery always terminates the target from every non-closed state; a kill on a finished connection is a no-op; together with C03's response-shape "
        "and quiescence theorems (which quantify over kills) the statement in flight ends with exactly one ERR and nothing is ever written outside a "
        "response. Known finding D9d is proved as a witness (PING -> ok, err queryKilled) and reported as KNOWN-FINDING. Tie: target programs over every "
        "command kind with pending application calls / blocked drains, one kill at EVERY event boundary, pairs and back-to-back kills, KILL on the issuing "
        "connection, compared event by event with Mimic.Conn; oracle: prefix-of-undisturbed-response + one ERR per kill, liveness after QUERY kills (PING in step), "
        "termination and single session.close after CONNECTION kills. CODE LEVEL: Connection.kill is translated on every run (Mimic/Extracted/KillCode.lean) "
        "and proved to be the machine's kill event for every state and both kinds (kill_is_code, self_kill_is_code).",
   note=TB + "Modelled, not verified: asyncio cancellation semantics (A1, A2: delivery at the parked await; request/deliver split models Task.cancel()); kill placement granularity is the harness event boundary (quiescent points), plus back-to-back requests.",
   design="DESIGN.md section 4, C09")

CLAIMED["C10"] = dict(
   technique="Lean 4 proof (life-cycle invariant of the connection machine preserved by every event, by induction over arbitrary event histories incl. faults) + differential execution with faults injected at every event boundary + implementation-level fault enumeration",
   text="Theorems in lean/MimicProps/C10.lean: for EVERY history of handshake / commands (arbitrary scripts without life-cycle ops) / application resumes / "
        "client block-unblock / kills and their delivery / client EOF / transport loss, with session.init suspending or raising and session.close raising: "
        "when the connection has ended, session.close was called exactly (1 if init completed else 0) times, the connection is unregistered and the "
        "transport closed; before the end close was never called; never twice; never without init. Tie: reference conversation (handshake, streamed query, "
        "prepare, cursor, fetch, reset, quit) with one fault at every event boundary and sampled pairs, all login variants and callback failures, compared "
        "event by event with Mimic.Conn; oracle-only enumerations: disconnect after every (3rd in quick) byte offset, failure of every transport.write; "
        "oracle: close count, registry, transport, no surviving server task.",
   note=TB + "Modelled, not verified: asyncio (A1-A4); session.close is awaited without suspension in the model; write failures are modelled as a lost transport noticed at the next drain/read.",
   design="DESIGN.md section 4, C10")

CLAIMED["C01"] = dict(
   technique="Lean 4 proof (no OK without a success decision, for every branch of authenticate; closed state absorbing; failed handshake / failed COM_CHANGE_USER end the connection) + differential execution of exchanges and their consequences",
   text="Theorems in lean/MimicProps/C01.lean: for every identity-provider configuration, route, announced plugin, response and reply sequence, an outcome other "
        "than `authenticated` never writes an OK packet; a successful exchange ends with OK for the identity a plugin decision vouched for; a denied / unknown-user / "
        "malformed handshake writes exactly one ERR, never initialises the session, closes and releases the connection, and nothing the client sends afterwards "
        "produces a packet or a session call (closed is absorbing); a denied or raising COM_CHANGE_USER is answered by one ERR, closes the session exactly once "
        "and serves nothing afterwards. Tie: random configurations (native, two clear-password plugins, no-login, trust, 2-round custom) / users / responses on "
        "the handshake route with follow-up commands, then COM_CHANGE_USER (right / wrong / unknown / raising) with follow-ups, compared with Mimic.Auth and "
        "Mimic.Conn; oracle-only: handshake responses truncated at every offset, wrong sequence ids in the connection phase; reference predicate (hashlib). "
        "CODE LEVEL: Connection.handle_change_user is read from the source on every run (harness/pytrans3.py) and plugged into the generated command loop: in "
        "every conversation a COM_CHANGE_USER whose _change_user does not return ends the command phase there, with the exchange's own ERR or exactly one ERR, "
        "and nothing sent after it is looked at (code_nothing_after_failed_change_user, code_change_user_exchange); _change_user itself is a parameter.",
   note=TB + "Modelled, not verified: parse_handshake_response (its outcome - parsed / raised - is observed, see C07), asyncio.",
   design="DESIGN.md section 4, C01")

CLAIMED["C07"] = dict(
   technique="Lean 4 proof (total parsers by construction; loop bounds for read_str_null / connect attributes / parameter types, termination of the loops of the parsers translated from the source on every run; machine theorems for arbitrary scripts) + differential execution of mutated packets against the Lean parsers + work-budget / liveness measurement on the real server",
   text="Theorems in lean/MimicProps/C07.lean: every model parser is a total function (kernel-accepted, no partial); read_str_null consumes at most the input; the "
        "connect-attribute loop needs no more iterations than input bytes whatever length is claimed (fuel independence); a parameter block claiming n types needs 2n "
        "bytes; for ANY script a packet induces, the connection writes the response or a prefix closed by exactly one ERR and is idle again or terminates (C03 instance); "
        "a rejected command payload gives exactly one ERR and stays idle; a rejected handshake gives one ERR and is closed and released (C01/C10 instances); CODE LEVEL: "
        "the client-packet parsers of packets.py (handshake response, change user, connect attributes, query, parameter blocks, statement commands) and read_str_null "
        "are translated from the source on every run (harness/pytrans2.py); every while loop of the translation terminates within the translator's fuel for every input "
        "(code_loops_terminate), read_str_null equals the model, a parameter block that claims more parameters than bytes is rejected (code_parameter_loop_bounded). Tie: "
        "translated parsers; mutated "
        "handshake responses / COM_QUERY attribute blocks through the real parsers vs Mimic.Packets / Mimic.Params (same parse or both reject); every mutated packet at "
        "every session position on a real server under a sys.monitoring line budget with a witness connection, a newcomer, clean and abrupt departure of the "
        "offender and a registry check. Partial: that the Python interpreter does bounded work is measured, not proved.",
   note=TB + "Modelled, not verified: CPU work of the interpreter (measured as executed source lines of mysql_mimic), BytesIO.read semantics incl. OverflowError for lengths >= 2^63 (modelled), codecs utf-8/latin-1/ascii (other collations skipped at parser level). Not claimed: REGEX_PARAM cost on inputs with very many '?'.",
   design="DESIGN.md section 4, C07")

REASON_PENDING = "check not built yet (work in progress; see DESIGN.md section 9)"

m = {
 "version": 1,
 "setup_cmd": "cd lean && lake build",
 "hooks": {
  "guard": "MYSQL_MIMIC_VERIF",
  "enable": "no source hooks are needed: the harness injects reader/writer/session/identity-provider/control objects through the public constructors; ./check exports MYSQL_MIMIC_VERIF=1 for uniformity",
  "baseline_off_cmd": "python3 tools/baseline.py",
  "source_commits": [],
  "add_only": True,
 },
 "engines": [
  {"name": "lean-model", "path": "lean/", "serves_properties": sorted(CLAIMED), "kind_free_text": "Lean 4 executable models (Mimic/), helper lemmas (MimicProofs/), property theorems (MimicProps/), compiled line-protocol driver (Driver.lean)"},
  {"name": "correspondence-harness", "path": "harness/", "serves_properties": sorted(CLAIMED), "kind_free_text": "extract.py translator + in-process differential execution of the real mysql_mimic code against the model driver; per-property oracles"},
 ],
 "checks": [],
 "not_applicable": [],
 "notes": "See DESIGN.md. known_findings.json lists fixed and known defects; ./check <ID> --tier quick|thorough.",
}
for p in props:
    i = p["id"]
    if i in CLAIMED:
        c = CLAIMED[i]
        m["checks"].append({
          "property_id": i,
          "quick_cmd": f"./check {i} --tier quick",
          "thorough_cmd": f"./check {i} --tier thorough",
          "evidence_file": f"evidence/{i}.json",
          "replay_cmd_template": f"./check {i} --replay {{path}}",
          "engine": "lean-model",
          "level_claimed": {"category": "proof", "text": c["text"], "design_ref": c["design"]},
          "level_note": c["note"],
          "technique": c["technique"],
        })
    else:
        m["not_applicable"].append({"property_id": i, "reason": REASON_PENDING})
json.dump(m, open(os.path.join(V, "MANIFEST.json"), "w"), indent=1)
print("checks:", [c["property_id"] for c in m["checks"]], "pending:", len(m["not_applicable"]))
