#!/bin/bash
export VERIF_EVIDENCE_DIR=/tmp/verif_scratch_evidence   # runs on a modified /repo must not overwrite the committed evidence
# usage: tools/try_patch.sh <patch.diff> <ID> [<ID>...]   — apply a patch to /repo, run the checks, revert.
P="$1"; shift
git -C /repo apply "$P" || { echo "patch does not apply"; exit 2; }
for id in "$@"; do
  echo "== $id with $(basename $(dirname $P))"
  timeout 1200 /verif/check "$id" --tier "${TIER:-quick}" 2>&1 | grep -v "WARNING conda" | tail -${TAIL:-4}
  echo "exit=${PIPESTATUS[0]}"
done
git -C /repo checkout -- .
git -C /repo status --short | head -3
