#!/usr/bin/env python3
"""Run the repository's pinned test suite (guard off) and compare with /root/.vp/BASELINE.json.
Exit 0 iff every stable_pass test passed."""
import json, os, subprocess, sys, tempfile, xml.etree.ElementTree as ET
base = json.load(open('/root/.vp/BASELINE.json'))
fd, path = tempfile.mkstemp(suffix='.xml'); os.close(fd)
env = dict(os.environ); env.pop('MYSQL_MIMIC_VERIF', None)
cmd = base['cmd'].replace('<file>', path)
if '--fast' in sys.argv:
    cmd += ' -k "not sqlalchemy"'  # no stable_pass test is a sqlalchemy one; they all fail offline and are slow
subprocess.run(cmd, shell=True, env=env, stdout=subprocess.DEVNULL, stderr=subprocess.DEVNULL)
passed = set()
for tc in ET.parse(path).getroot().iter('testcase'):
    if not any(c.tag in ('failure', 'error', 'skipped') for c in tc):
        passed.add(f"{tc.get('classname')}::{tc.get('name')}")
os.unlink(path)
missing = [t for t in base['stable_pass'] if t not in passed]
print(f"baseline stable_pass={len(base['stable_pass'])} passed_now={len(passed)} missing={len(missing)}")
for t in missing[:40]: print("  MISSING", t[:200])
sys.exit(1 if missing else 0)
