#!/bin/bash
# run every claimed check's quick tier for a range of seeds on the current tree; print only non-clean results
# usage: tools/sweep.sh <first-seed> <last-seed> [ID...]
cd "$(dirname "$0")/.."
a=${1:-1}; b=${2:-5}; shift 2
ids=${@:-$(python3 -c "import json; print(' '.join(c['property_id'] for c in json.load(open('MANIFEST.json'))['checks']))")}
for sd in $(seq $a $b); do
  for id in $ids; do
    out=$(VERIF_SEED=$sd ./check $id 2>&1 | grep -v "WARNING conda" | tail -3)
    if echo "$out" | grep -q "VIOLATION\|Traceback\|Error"; then echo "seed=$sd $id: $out"; fi
  done
done
echo "sweep $a..$b done"
