#!/usr/bin/env python3
"""Seed matrix without touching /repo's working tree or /verif/lean: every seeded change gets its own scratch worktree
of /repo and a private copy of lean/ (as tools/mutants.py does); the seed's own check (or every check with `all`) runs
against it through PYTHONPATH.  Writes seeded/RESULTS.tsv.  usage: tools/seed_matrix.py [own|all] [workers] [seed-glob]"""
import fnmatch
import json
import os
import shutil
import subprocess
import sys
from concurrent.futures import ThreadPoolExecutor

VERIF = os.path.abspath(os.path.join(os.path.dirname(os.path.abspath(__file__)), ".."))


def run(cmd, env=None, timeout=1500, cwd=None):
    try:
        p = subprocess.run(cmd, shell=True, env=env, cwd=cwd, stdout=subprocess.PIPE, stderr=subprocess.STDOUT, timeout=timeout, text=True)
        return p.returncode, p.stdout
    except subprocess.TimeoutExpired:
        return 124, "timeout"


def worker(job):
    name, ids = job
    prop = name.rsplit("_", 1)[0]
    wt, lean = "/tmp/seedwt_" + name, "/tmp/seedlean_" + name
    alarmed, concrete = [], []
    try:
        run("git -C /repo worktree add -q --detach %s HEAD" % wt)
        rc, out = run("git -C %s apply %s/seeded/%s/patch.diff" % (wt, VERIF, name))
        if rc != 0:
            return name, prop, "PATCH-DOES-NOT-APPLY", [], []
        shutil.copytree(os.path.join(VERIF, "lean"), lean, symlinks=True)
        env = dict(os.environ, PYTHONPATH=wt, VERIF_LEAN_DIR=lean, VERIF_EVIDENCE_DIR="/tmp/seedev_" + name, VERIF_REPLAY_DIR="/tmp/seedrp_" + name,
                   PYTHONDONTWRITEBYTECODE="1", MYSQL_MIMIC_VERIF="1", VERIF_SEED="0")
        for pid in ids:
            rc, out = run("/venv/bin/python %s/harness/props/%s.py --tier quick" % (VERIF, pid.lower()), env=env, cwd=VERIF)
            if "VIOLATION property=" in out or rc != 0:
                alarmed.append(pid)
                if "VIOLATION" in out and "no-failing-input-found" not in out:
                    concrete.append(pid)
        return name, prop, "yes" if prop in alarmed else "no", alarmed, concrete
    finally:
        run("git -C /repo worktree remove --force %s" % wt)
        for d in (lean, "/tmp/seedev_" + name, "/tmp/seedrp_" + name, wt):
            shutil.rmtree(d, ignore_errors=True)


def main():
    mode = sys.argv[1] if len(sys.argv) > 1 else "own"
    workers = int(sys.argv[2]) if len(sys.argv) > 2 else 6
    glob = sys.argv[3] if len(sys.argv) > 3 else "*"
    allids = [c["property_id"] for c in json.load(open(os.path.join(VERIF, "MANIFEST.json")))["checks"]]
    seeds = sorted(d for d in os.listdir(os.path.join(VERIF, "seeded"))
                   if os.path.isfile(os.path.join(VERIF, "seeded", d, "patch.diff")) and fnmatch.fnmatch(d, glob))
    jobs = [(s, allids if mode == "all" else [s.rsplit("_", 1)[0]]) for s in seeds]
    rows = {}
    path = os.path.join(VERIF, "seeded", "RESULTS.tsv")
    if glob != "*" and os.path.exists(path):
        for l in open(path).read().split("\n")[1:]:
            if l.strip():
                rows[l.split("\t")[0]] = l
    with ThreadPoolExecutor(max_workers=workers) as ex:
        for name, prop, own, alarmed, concrete in ex.map(worker, jobs):
            rows[name] = "%s\t%s\t%s\t %s\t %s" % (name, prop, own, " ".join(alarmed), " ".join(concrete))
            print(rows[name], flush=True)
    with open(path, "w") as f:
        f.write("seed\tproperty\town_check\talarmed\twith_failing_input\n" + "\n".join(rows[k] for k in sorted(rows)) + "\n")


if __name__ == "__main__":
    main()
