#!/usr/bin/env python3
"""Print the prompt given to a fresh sub-agent that writes a seeded breaking change (and create its scratch worktree).
usage: tools/agent_prompt.py <ID> <N>   -> worktree /tmp/wt/<ID>_<N>, deliverables /tmp/agents/<ID>_<N>/
The agent sees only the property's text and the worktree; nothing from /verif."""
import json, subprocess, sys, os
pid, n = sys.argv[1], sys.argv[2]
prop = next(json.loads(l) for l in open(os.path.join(os.path.dirname(__file__), '..', 'properties.jsonl')) if json.loads(l)['id'] == pid)
name = f"{pid}_{n}"
wt, out = f"/tmp/wt/{name}", f"/tmp/agents/{name}"
if '--no-worktree' not in sys.argv:
    subprocess.run(['git', '-C', '/repo', 'worktree', 'prune'])
    if not os.path.isdir(wt):
        subprocess.run(['git', '-C', '/repo', 'worktree', 'add', '-q', '--detach', wt, 'HEAD'], check=True)
    os.makedirs(out, exist_ok=True)
text = {k: prop[k] for k in ('id', 'title', 'statement', 'quantifier', 'why_tests_cant', 'anchors')}
print(f"""You are helping to evaluate verification tooling for the Python library mysql-mimic (a pure-Python asyncio implementation of the MySQL server wire protocol). Your job: write ONE realistic, subtle source change to the library that BREAKS the semantic property below while the library still imports and its existing test suite still passes, plus a small demonstration program.

Your private scratch checkout of the library is the git worktree {wt} (work ONLY there; never touch /repo or /verif, never read /verif). Python: /venv/bin/python (use PYTHONPATH={wt} so that your worktree's mysql_mimic is imported, and verify with `python -c "import mysql_mimic; print(mysql_mimic.__file__)"`). There is no network.

THE PROPERTY (JSON):
{json.dumps(text, indent=1)}

REQUIREMENTS FOR THE CHANGE
- It must look like something a maintainer could plausibly commit (an optimisation, refactoring, tidy-up, feature tweak), not sabotage; no dead code, no comments that give it away, no special-casing of magic values.
- It must need something SPECIFIC to manifest: a particular interleaving, a fault or disconnect at a particular point, a multi-step sequence of operations, an unusual-but-legal input (boundary size, rare type, rare capability combination), or two cooperating sites that each look fine alone. Changes that ordinary use would expose at once are not wanted.
- Everything in mysql_mimic/ is in scope, not only the anchored lines. Prefer a mechanism and a location that are NOT the most obvious ones for this property; be creative about where the property can be broken indirectly.
- The existing test suite must still pass with the change: run
    cd {wt} && PYTHONPATH={wt} /venv/bin/python -m pytest -q -p no:cacheprovider -k 'not sqlalchemy' tests
  before and after (takes ~10 s; the tests bind the fixed port 3307, so run them inside a private network namespace to avoid collisions with other users of this machine: `unshare -rn sh -c "ip link set lo up; <pytest command>"`). On the unmodified checkout the summary is `12 failed, 336 passed, 89 deselected` (those 12 fail regardless, in this sandbox); with your change the very same 336 tests must still pass (compare the lists of failed tests; `-rf` prints them). Do not edit tests.
- The demonstration: {out}/demo.py, a self-contained program (run as `PYTHONPATH=<checkout> /venv/bin/python demo.py`) that drives the REAL library code (in-process is best: e.g. construct MysqlServer / Connection with asyncio streams, or open a loopback socket to a server started in the same process; raw protocol bytes are fine) and exits 0 when the property holds on its scenario and exits non-zero (with a short message) when it is violated. It must exit 0 on the unmodified checkout and non-zero with your change applied. Keep it deterministic and under 60 s.

DELIVERABLES in {out}/ :
- patch.diff  — `git -C {wt} diff` of your change (source files under mysql_mimic/ only; must apply to a clean checkout with `git apply`)
- demo.py
- meta.json   — {{"property": "{pid}", "summary": "<what was changed and why it breaks the property>", "needs": "<what is needed for it to manifest>", "files": ["mysql_mimic/..."]}}

Before finishing: (1) write patch.diff, then `git -C {wt} apply -R {out}/patch.diff` → run demo.py → must exit 0; `git -C {wt} apply {out}/patch.diff` → run demo.py → must exit non-zero (do NOT use `git stash`: the stash is shared with other worktrees); (2) run the test suite with the change and confirm the same tests pass as without it. Leave the worktree with your change applied. Report in your final message: the summary, what it needs to manifest, and the results of (1) and (2).""")
