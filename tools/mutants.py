#!/usr/bin/env python3
"""Mutation campaign: small syntactic changes of mysql_mimic, one at a time, in scratch worktrees (never in /repo).

For every sampled mutant:
  1. it must compile;
  2. the pinned test suite must still pass completely (otherwise the mutant is not interesting: the existing tests see it);
  3. every check's quick tier runs against it (code under test chosen with PYTHONPATH, private copy of lean/, private
     evidence / replay directories) and the checks that raise an alarm are recorded.

Survivors of (2) that no check reports are written to the report for triage: they are either equivalent / outside the 18
properties, or a blind spot.  Usage: tools/mutants.py <n-mutants> <workers> [seed]   → /verif/seeded/MUTANTS.tsv"""
import ast
import json
import os
import random
import shutil
import subprocess
import sys
import tempfile
import xml.etree.ElementTree as ET
from concurrent.futures import ThreadPoolExecutor

VERIF = os.path.abspath(os.path.join(os.path.dirname(os.path.abspath(__file__)), ".."))
REPO = "/repo"
FILES = ["auth.py", "connection.py", "control.py", "intercept.py", "packets.py", "prepared.py", "results.py", "schema.py", "server.py",
         "session.py", "stream.py", "types.py", "utils.py", "variables.py", "charset.py"]
CMP = {ast.Lt: "<=", ast.LtE: "<", ast.Gt: ">=", ast.GtE: ">", ast.Eq: "!=", ast.NotEq: "==", ast.Is: "is not", ast.IsNot: "is", ast.In: "not in", ast.NotIn: "in"}
CMPTXT = {ast.Lt: "<", ast.LtE: "<=", ast.Gt: ">", ast.GtE: ">=", ast.Eq: "==", ast.NotEq: "!=", ast.Is: "is", ast.IsNot: "is not", ast.In: "in", ast.NotIn: "not in"}


def sites(path):
    """(kind, lineno, col, end_lineno, end_col, replacement, description)"""
    src = open(path).read()
    tree = ast.parse(src)
    lines = src.split("\n")
    out = []

    def seg(n):
        return ast.get_source_segment(src, n)

    for n in ast.walk(tree):
        if isinstance(n, ast.Compare) and len(n.ops) == 1 and type(n.ops[0]) in CMP:
            left, right = seg(n.left), seg(n.comparators[0])
            if left is None or right is None:
                continue
            new = "%s %s %s" % (left, CMP[type(n.ops[0])], right)
            out.append(("cmp", n, new, "%s → %s" % (seg(n), new)))
        elif isinstance(n, ast.BoolOp) and len(n.values) == 2:
            a, b = seg(n.values[0]), seg(n.values[1])
            if a is None or b is None:
                continue
            op = "or" if isinstance(n.op, ast.And) else "and"
            new = "%s %s %s" % (a, op, b)
            out.append(("bool", n, new, "%s → %s" % (seg(n), new)))
        elif isinstance(n, ast.UnaryOp) and isinstance(n.op, ast.Not):
            a = seg(n.operand)
            if a is not None:
                out.append(("not", n, "(%s)" % a, "%s → %s" % (seg(n), a)))
        elif isinstance(n, ast.Constant) and isinstance(n.value, int) and not isinstance(n.value, bool) and 0 <= n.value <= 2 ** 32:
            s = seg(n)
            if s is None:
                continue
            for d in (1, -1):
                if n.value + d >= 0:
                    out.append(("const", n, str(n.value + d), "%s → %d" % (s, n.value + d)))
        elif isinstance(n, ast.keyword) and n.arg == "drain" and isinstance(n.value, ast.Constant):
            out.append(("drain", n.value, str(not n.value.value), "drain=%s → %s" % (n.value.value, not n.value.value)))
        elif isinstance(n, ast.BinOp) and isinstance(n.op, (ast.Add, ast.Sub)) and seg(n.left) and seg(n.right):
            op = "-" if isinstance(n.op, ast.Add) else "+"
            new = "%s %s %s" % (seg(n.left), op, seg(n.right))
            out.append(("arith", n, new, "%s → %s" % (seg(n), new)))
        elif isinstance(n, ast.Expr) and isinstance(n.value, (ast.Await, ast.Call)):
            s = seg(n)
            if s and ("write(" in s or "reset_seq" in s or ".set(" in s or "drain()" in s or ".pop(" in s or "close()" in s or "remove(" in s):
                out.append(("delete-stmt", n, "pass", "%s → pass" % s.split("\n")[0][:70]))
        elif isinstance(n, ast.Assign) and len(n.targets) == 1 and isinstance(n.targets[0], ast.Attribute) and seg(n):
            s = seg(n)
            if s.startswith("self._") or s.startswith("self.session.") or s.startswith("stmt."):
                out.append(("delete-assign", n, "pass", "%s → pass" % s.split("\n")[0][:70]))
        elif isinstance(n, ast.Return) and n.value is not None and isinstance(n.value, ast.Constant) and isinstance(n.value.value, bool):
            out.append(("return-bool", n.value, str(not n.value.value), "return %s → %s" % (n.value.value, not n.value.value)))
    res = []
    for kind, n, new, desc in out:
        if getattr(n, "end_lineno", None) is None:
            continue
        res.append((kind, n.lineno, n.col_offset, n.end_lineno, n.end_col_offset, new, desc))
    return res


def apply(path, site):
    kind, l1, c1, l2, c2, new, desc = site
    lines = open(path).read().split("\n")
    if l1 == l2:
        ln = lines[l1 - 1]
        lines[l1 - 1] = ln[:c1] + new + ln[c2:]
    else:
        first = lines[l1 - 1][:c1] + new + lines[l2 - 1][c2:]
        lines[l1 - 1:l2] = [first]
    open(path, "w").write("\n".join(lines))


def run(cmd, env=None, timeout=1800, cwd=None):
    try:
        p = subprocess.run(cmd, shell=True, capture_output=True, text=True, env=env, timeout=timeout, cwd=cwd)
        return p.returncode, p.stdout + p.stderr
    except subprocess.TimeoutExpired:
        return 124, "timeout"


def baseline_ok(wt, tag):
    junit = "/tmp/mut_%s.xml" % tag
    rc, out = run("unshare -rn sh -c \"ip link set lo up; cd %s && PYTHONPATH=%s /venv/bin/python -m pytest -q -p no:cacheprovider -k 'not sqlalchemy' --timeout=120 "
                  "--junitxml=%s tests >/dev/null 2>&1\"" % (wt, wt, junit), timeout=900)
    try:
        base = json.load(open("/root/.vp/BASELINE.json"))
        passed = set()
        for tc in ET.parse(junit).getroot().iter("testcase"):
            if not any(c.tag in ("failure", "error", "skipped") for c in tc):
                passed.add("%s::%s" % (tc.get("classname"), tc.get("name")))
        return all(t in passed for t in base["stable_pass"])
    except Exception:  # noqa
        return False
    finally:
        if os.path.exists(junit):
            os.unlink(junit)


def worker(job):
    idx, rel, site, ids = job
    tag = "m%04d" % idx
    wt = "/tmp/mutwt_%s" % tag
    lean = "/tmp/mutlean_%s" % tag
    res = dict(idx=idx, file=rel, kind=site[0], line=site[1], desc=site[6], status="?", alarms=[], concrete=[])
    try:
        run("git -C %s worktree add -q --detach %s HEAD" % (REPO, wt))
        apply(os.path.join(wt, "mysql_mimic", rel), site)
        rc, out = run("/venv/bin/python -m py_compile %s" % os.path.join(wt, "mysql_mimic", rel))
        if rc != 0:
            res["status"] = "does-not-compile"
            return res
        rc, out = run("PYTHONPATH=%s /venv/bin/python -c 'import mysql_mimic'" % wt)
        if rc != 0:
            res["status"] = "does-not-import"
            return res
        if not baseline_ok(wt, tag):
            res["status"] = "killed-by-tests"
            return res
        res["status"] = "survives-tests"
        shutil.copytree(os.path.join(VERIF, "lean"), lean, symlinks=True)
        env = dict(os.environ, PYTHONPATH=wt, VERIF_LEAN_DIR=lean, VERIF_EVIDENCE_DIR="/tmp/mutev_%s" % tag, VERIF_REPLAY_DIR="/tmp/mutrp_%s" % tag,
                   PYTHONDONTWRITEBYTECODE="1", MYSQL_MIMIC_VERIF="1")
        for pid in ids:
            rc, out = run("/venv/bin/python %s/harness/props/%s.py --tier quick" % (VERIF, pid.lower()), env=env, timeout=900, cwd=VERIF)
            if "VIOLATION property=" in out or rc not in (0,):
                res["alarms"].append(pid)
                if "no-failing-input-found" not in out and "VIOLATION" in out:
                    res["concrete"].append(pid)
        return res
    finally:
        run("git -C %s worktree remove --force %s" % (REPO, wt))
        for d in (lean, "/tmp/mutev_%s" % tag, "/tmp/mutrp_%s" % tag, wt):
            shutil.rmtree(d, ignore_errors=True)


def main():
    n = int(sys.argv[1]) if len(sys.argv) > 1 else 40
    workers = int(sys.argv[2]) if len(sys.argv) > 2 else 6
    seed = int(sys.argv[3]) if len(sys.argv) > 3 else 1
    rng = random.Random(seed)
    ids = [c["property_id"] for c in json.load(open(os.path.join(VERIF, "MANIFEST.json")))["checks"]]
    allsites = []
    for rel in FILES:
        for s in sites(os.path.join(REPO, "mysql_mimic", rel)):
            allsites.append((rel, s))
    # no mutations inside the big constant tables of charset.py (enum values) — they are data, and covered by extraction
    allsites = [(r, s) for r, s in allsites if not (r == "charset.py" and s[0] == "const")]
    rng.shuffle(allsites)
    jobs = [(i, rel, s, ids) for i, (rel, s) in enumerate(allsites[:n])]
    out = os.path.join(VERIF, "seeded", "MUTANTS_%d.tsv" % seed)
    with open(out, "w") as f:
        f.write("idx\tfile\tline\tkind\tmutation\tstatus\talarms\twith_failing_input\n")
    with ThreadPoolExecutor(max_workers=workers) as ex:
        for r in ex.map(worker, jobs):
            with open(out, "a") as f:
                f.write("%d\t%s\t%d\t%s\t%s\t%s\t%s\t%s\n" % (r["idx"], r["file"], r["line"], r["kind"], r["desc"].replace("\t", " ").replace("\n", " ")[:160],
                                                           r["status"], " ".join(r["alarms"]), " ".join(r["concrete"])))
            print(r["idx"], r["file"], r["line"], r["kind"], r["status"], r["alarms"], flush=True)
    run("git -C %s worktree prune" % REPO)


if __name__ == "__main__":
    main()
