#!/bin/bash
export VERIF_EVIDENCE_DIR=/tmp/verif_scratch_evidence   # runs on a modified /repo must not overwrite the committed evidence
# For every seeded change: apply it to /repo, run every check's quick tier, record which checks raise an alarm, undo it.
# Writes seeded/RESULTS.tsv (seed <TAB> property <TAB> caught-by-own-check <TAB> checks that alarmed <TAB> of which with a concrete failing input).
cd "$(dirname "$0")/.."
# usage: tools/seed_matrix.sh [own|all]   (own: only the seed's own property check; all: every check)
mode=${1:-own}
allids=$(python3 -c "import json; print(' '.join(c['property_id'] for c in json.load(open('MANIFEST.json'))['checks']))")
out=seeded/RESULTS.tsv
echo -e "seed\tproperty\town_check\talarmed\twith_failing_input" > $out
for d in seeded/C*_*; do
  s=$(basename $d); prop=${s%_*}
  git -C /repo checkout -q -- . ; git -C /repo apply "$PWD/$d/patch.diff" || { echo -e "$s\t$prop\tPATCH-DOES-NOT-APPLY\t\t" >> $out; continue; }
  alarmed=""; concrete=""
  ids=$allids; [ "$mode" = "own" ] && ids=$prop
  for id in $ids; do
    o=$(VERIF_SEED=0 ./check $id 2>&1 | grep "VIOLATION")
    if [ -n "$o" ]; then
      alarmed="$alarmed $id"
      echo "$o" | grep -q "no-failing-input-found" || concrete="$concrete $id"
    fi
  done
  own=no; echo "$alarmed" | grep -qw $prop && own=yes
  echo -e "$s\t$prop\t$own\t$alarmed\t$concrete" >> $out
  git -C /repo checkout -q -- .
done
git -C /repo checkout -q -- .
echo done
