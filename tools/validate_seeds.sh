#!/bin/bash
# Validate seeded changes delivered in /tmp/agents/<ID>_<N>/ in a scratch worktree (never in /repo):
#   demo passes on clean code, fails with the patch; pinned test suite pass set unchanged with the patch.
# Validated ones are copied to /verif/seeded/<ID>_<N>/ with meta.json extended by what was run.
WT=/tmp/val_wt
for d in "$@"; do
  name=$(basename "$d")
  [ -f "$d/patch.diff" ] || { echo "$name: no patch"; continue; }
  [ -d /verif/seeded/$name ] && { echo "$name: already kept"; continue; }
  rm -rf $WT; git -C /repo worktree prune; git -C /repo worktree add -q --detach $WT HEAD || exit 2
  cd $WT
  PYTHONPATH=$WT timeout 300 /venv/bin/python "$d/demo.py" >/tmp/val_clean.log 2>&1; c=$?
  git apply "$d/patch.diff" || { echo "$name: patch does not apply"; cd /; git -C /repo worktree remove --force $WT; continue; }
  PYTHONPATH=$WT timeout 300 /venv/bin/python "$d/demo.py" >/tmp/val_patched.log 2>&1; p=$?
  unshare -rn sh -c "ip link set lo up; cd $WT && PYTHONPATH=$WT /venv/bin/python -m pytest -q -p no:cacheprovider -k 'not sqlalchemy' --junitxml=/tmp/val_junit.xml tests >/dev/null 2>&1"
  miss=$(python3 - <<PY
import json, xml.etree.ElementTree as ET
base=json.load(open('/root/.vp/BASELINE.json'))
passed=set()
for tc in ET.parse('/tmp/val_junit.xml').getroot().iter('testcase'):
    if not any(c.tag in ('failure','error','skipped') for c in tc): passed.add(f"{tc.get('classname')}::{tc.get('name')}")
print(len([t for t in base['stable_pass'] if t not in passed]))
PY
)
  cd /; git -C /repo worktree remove --force $WT
  echo "$name: demo_clean_exit=$c demo_patched_exit=$p baseline_missing=$miss"
  if [ "$c" = "0" ] && [ "$p" != "0" ] && [ "$miss" = "0" ]; then
    mkdir -p /verif/seeded/$name; cp "$d/patch.diff" "$d/demo.py" /verif/seeded/$name/
    python3 - "$d/meta.json" /verif/seeded/$name/meta.json <<'PY'
import json,sys
m=json.load(open(sys.argv[1]))
m["validated"]={"ran":["demo.py on clean worktree of /repo HEAD -> exit 0","demo.py with patch.diff applied -> non-zero exit","pinned test suite (-k 'not sqlalchemy', private netns) with patch applied: all 336 stable_pass tests pass"]}
json.dump(m,open(sys.argv[2],'w'),indent=1)
PY
    echo "  kept -> /verif/seeded/$name"
  fi
done
